//! C19: the block pool never loses or duplicates a block.
//!
//! Protocol (BlockPageResource / ImmixSpace::FlushPageResource / ReusableBlockPool): W "GC worker"
//! threads, each with its own worker ordinal, `push` concurrently while A allocator threads `pop`
//! concurrently; `flush_all` (and `iterate_blocks`, `len` used as a verdict) only at points where no
//! push is in flight.  Worker-local queues hold 256 entries and spill to the global list.
//!
//! Blocks are a harness-defined `Region` whose address encodes a unique id (id 0 is never used, so
//! a read of a zeroed, never-written queue entry is recognisable).  The history is recorded per
//! round; at the quiescent point after every round:
//!   * every popped id was held before the round or pushed in this round, and was popped once,
//!   * `len()` == |held|,  `iterate_blocks` == held (as a multiset),
//!   * in some rounds `flush_all` followed by a (concurrent) drain returns exactly the held set.
use mmtk::util::linear_scan::Region;
use mmtk::util::Address;
use mmtk::verif::{set_worker_ordinal, BlockPool};
use std::collections::HashMap;
use std::sync::atomic::{AtomicBool, AtomicUsize, Ordering};
use std::sync::{Barrier, Mutex};
use vcommon::{mix, Args, Report, Rng, J};

const LOG_BLK: usize = 15;

#[derive(Copy, Clone, PartialEq, PartialOrd, Debug)]
struct Blk(Address);

impl Region for Blk {
    const LOG_BYTES: usize = LOG_BLK;
    fn from_aligned_address(address: Address) -> Self {
        debug_assert!(address.is_aligned_to(Self::BYTES));
        Blk(address)
    }
    fn start(&self) -> Address {
        self.0
    }
}

fn blk(id: u64) -> Blk {
    Blk::from_aligned_address(unsafe { Address::from_usize((id as usize) << LOG_BLK) })
}
fn id_of(b: Blk) -> u64 {
    (b.start().as_usize() >> LOG_BLK) as u64
}

/// `BlockPool` contains `UnsafeCell`s and has no `Sync` impl of its own; inside mmtk-core it is
/// shared through `ImmixSpace`/`MarkSweepSpace`, which assert `Sync` themselves.
struct Shared(BlockPool<Blk>);
unsafe impl Sync for Shared {}

#[derive(Default)]
struct Plan {
    /// ids each pusher pushes in this round
    push: Vec<Vec<u64>>,
    /// how many successful pops each popper may make in this round
    pop_quota: Vec<usize>,
    /// poppers keep trying for this many failed attempts after all pushers are done
    linger: usize,
    /// pushers wait until poppers are spinning? (start skew, in spin iterations)
    skew: Vec<u32>,
    stop: bool,
}

struct RoundOut {
    popped: Vec<Vec<u64>>,
}

#[derive(PartialEq, Clone, Copy)]
enum Held {
    Out,
    In,
}

struct Checker {
    seed: u64,
    /// state per id (index = id)
    state: Vec<Held>,
    held: usize,
}

impl Checker {
    fn fail(&self, rep: &mut Report, sig: &str, round: u64, cfg: &str, what: String) {
        rep.violation(
            format!("blockpool:{}", sig),
            format!("seed={} round={} config[{}] {}", self.seed, round, cfg, what),
        );
    }
}

pub fn run(args: &Args, rep: &mut Report) {
    let seed = args.seed();
    let mut rng = Rng::new(seed ^ 0xC19);
    let thorough = args.thorough();
    let ncpu = std::thread::available_parallelism().map(|n| n.get()).unwrap_or(2);
    // (workers, allocators) configurations; at most 8 threads.
    let configs: &[(usize, usize)] = if ncpu >= 8 {
        &[(4, 4), (6, 2), (2, 2), (1, 1), (3, 5), (7, 1)]
    } else {
        &[(2, 2), (3, 1), (1, 1), (1, 3)]
    };
    let miri = args.miri();
    let configs: &[(usize, usize)] = if miri { &[(2, 1), (1, 2)] } else { configs };
    let rounds_per_config: u64 = if miri { 3 } else if thorough { 18_000 } else { 1_500 };
    rep.note(format!(
        "available_parallelism={} configs={:?} rounds/config={}",
        ncpu, configs, rounds_per_config
    ));
    // `--selftest drop-push`: the harness itself silently skips one push per worker and round while
    // recording it as pushed, to demonstrate that the oracle fires on a lost block; never used by
    // the driver.
    let selftest = args.get("selftest") == Some("drop-push");
    if selftest {
        rep.note("SELFTEST: the harness deliberately loses blocks; violations are expected");
    }
    // The failpoint FP_BLOCKQUEUE_POP is declared in mmtk::verif; arm it for every other
    // configuration (a no-op as long as BlockQueue::pop is not instrumented with it).
    mmtk::verif::seed_failpoints(seed ^ 0xC19);
    for (ci, &(w, a)) in configs.iter().enumerate() {
        mmtk::verif::arm_failpoint(mmtk::verif::FP_BLOCKQUEUE_POP, if ci % 2 == 1 { 20 } else { 0 });
        run_config(rep, &mut rng, seed, ci as u64, w, a, rounds_per_config, selftest);
    }
    mmtk::verif::arm_failpoint(mmtk::verif::FP_BLOCKQUEUE_POP, 0);
    rep.count("failpoint_blockqueue_pop_hits", mmtk::verif::failpoint_hits(mmtk::verif::FP_BLOCKQUEUE_POP));
    rep.note("flush_all / iterate_blocks / len-as-verdict only at barriers where no push is in flight (as FlushPageResource); pops run concurrently with pushes, with each other and with the post-flush drain");
}

fn run_config(rep: &mut Report, rng: &mut Rng, seed: u64, ci: u64, w: usize, a: usize, rounds: u64, selftest: bool) {
    let pool = Shared(BlockPool::new(w));
    let plan = Mutex::new(Plan::default());
    let out = Mutex::new(RoundOut { popped: vec![vec![]; a] });
    let start = Barrier::new(w + a + 1);
    let end = Barrier::new(w + a + 1);
    let pushers_running = AtomicUsize::new(0);
    let poppers_ready = AtomicUsize::new(0);
    let abort = AtomicBool::new(false);
    let cfg = format!("workers={} allocators={}", w, a);

    // id universe: enough for several spills per worker per round
    let max_ids: usize = 1 + w * 1500 + 4096;
    let mut ck = Checker { seed, state: vec![Held::Out; max_ids + 1], held: 0 };
    let mut out_ids: Vec<u64> = (1..=max_ids as u64).collect();
    rng.shuffle(&mut out_ids);

    std::thread::scope(|s| {
        for wi in 0..w {
            let (pool, plan, start, end, pushers_running, poppers_ready) =
                (&pool, &plan, &start, &end, &pushers_running, &poppers_ready);
            s.spawn(move || {
                set_worker_ordinal(wi);
                loop {
                    start.wait();
                    let (ids, skew, stop, na) = {
                        let p = plan.lock().unwrap();
                        if p.stop {
                            (vec![], 0, true, 0)
                        } else {
                            (p.push[wi].clone(), p.skew[wi], false, p.pop_quota.len())
                        }
                    };
                    if stop {
                        break;
                    }
                    // let the allocator threads get going first, then an individual skew
                    let mut spins = 0u32;
                    while poppers_ready.load(Ordering::Relaxed) < na && spins < 20_000 {
                        std::hint::spin_loop();
                        spins += 1;
                    }
                    for _ in 0..skew {
                        std::hint::spin_loop();
                    }
                    for (k, id) in ids.into_iter().enumerate() {
                        if selftest && k == 300 {
                            continue;
                        }
                        pool.0.push(blk(id));
                    }
                    pushers_running.fetch_sub(1, Ordering::SeqCst);
                    end.wait();
                }
            });
        }
        for ai in 0..a {
            let (pool, plan, out, start, end, pushers_running, poppers_ready) =
                (&pool, &plan, &out, &start, &end, &pushers_running, &poppers_ready);
            s.spawn(move || loop {
                start.wait();
                let (quota, linger, stop) = {
                    let p = plan.lock().unwrap();
                    if p.stop {
                        (0, 0, true)
                    } else {
                        (p.pop_quota[ai], p.linger, false)
                    }
                };
                if stop {
                    break;
                }
                let mut got: Vec<u64> = Vec::with_capacity(quota.min(4096));
                let mut misses_after = 0usize;
                poppers_ready.fetch_add(1, Ordering::Relaxed);
                while got.len() < quota {
                    match pool.0.pop() {
                        Some(b) => got.push(id_of(b)),
                        None => {
                            if pushers_running.load(Ordering::SeqCst) == 0 {
                                misses_after += 1;
                                if misses_after > linger {
                                    break;
                                }
                            } else {
                                std::hint::spin_loop();
                            }
                        }
                    }
                }
                out.lock().unwrap().popped[ai] = got;
                end.wait();
            });
        }

        // ------------------------------ coordinator ------------------------------
        let mut spills_total = 0u64;
        for round in 0..rounds {
            if abort.load(Ordering::Relaxed) {
                break;
            }
            rep.count("rounds", 1);
            // what kind of round
            let kind = rng.below(10);
            // pushes per worker: often > 256 so that the local queue spills (several times)
            let mut push: Vec<Vec<u64>> = vec![vec![]; w];
            let mut planned = 0usize;
            for wi in 0..w {
                let n = match kind {
                    0 => rng.usize_below(40),                 // small, stays local
                    1 | 2 => 200 + rng.usize_below(120),      // around the capacity boundary
                    3 => [255usize, 256, 257, 512, 513][rng.usize_below(5)],
                    _ => 257 + rng.usize_below(1000),         // 1..4 spills
                };
                let n = n.min(out_ids.len());
                for _ in 0..n {
                    push[wi].push(out_ids.pop().unwrap());
                }
                planned += n;
            }
            let total_avail = ck.held + planned;
            let mut pop_quota = vec![0usize; a];
            let target = match rng.below(4) {
                0 => total_avail,                      // try to take everything that becomes poppable
                1 => total_avail / 4,
                _ => total_avail / 2 + rng.usize_below(total_avail / 2 + 1),
            };
            for ai in 0..a {
                pop_quota[ai] = target / a + if ai == 0 { target % a } else { 0 };
            }
            let spills_round: u64 = push.iter().map(|p| (p.len().saturating_sub(1) / 256) as u64).sum();
            {
                let mut p = plan.lock().unwrap();
                p.push = push.clone();
                p.pop_quota = pop_quota.clone();
                p.linger = rng.usize_below(200);
                p.skew = (0..w).map(|_| rng.below(3000) as u32).collect();
                p.stop = false;
            }
            pushers_running.store(w, Ordering::SeqCst);
            poppers_ready.store(0, Ordering::SeqCst);
            start.wait();
            end.wait();
            // ------------- quiescent: check the round -------------
            let popped: Vec<Vec<u64>> = std::mem::replace(&mut out.lock().unwrap().popped, vec![vec![]; a]);
            let mut pushed_now: HashMap<u64, usize> = HashMap::new();
            for (wi, ids) in push.iter().enumerate() {
                for &id in ids {
                    debug_assert!(ck.state[id as usize] == Held::Out);
                    ck.state[id as usize] = Held::In;
                    ck.held += 1;
                    pushed_now.insert(id, wi);
                }
            }
            rep.count("push", planned as u64);
            let mut popped_same_round = 0u64;
            let mut popped_total = 0usize;
            for (ai, ids) in popped.iter().enumerate() {
                for &id in ids {
                    popped_total += 1;
                    if id == 0 || id as usize > max_ids {
                        ck.fail(rep, "pop:never-pushed:garbage-id", round, &cfg,
                            format!("allocator {} popped block id {:#x} that was never handed to push (0 = zeroed, never-written queue entry)", ai, id));
                        continue;
                    }
                    match ck.state[id as usize] {
                        Held::In => {
                            ck.state[id as usize] = Held::Out;
                            ck.held -= 1;
                            out_ids.push(id);
                            if pushed_now.contains_key(&id) {
                                popped_same_round += 1;
                            }
                        }
                        Held::Out => {
                            // either never pushed, or already popped (in this round or earlier)
                            let twice = popped.iter().flatten().filter(|&&x| x == id).count() > 1;
                            ck.fail(rep, if twice { "pop:popped-twice" } else { "pop:not-held" }, round, &cfg,
                                format!("allocator {} popped block id {} which is not held by the pool ({})", ai, id,
                                    if twice { "returned by two pops in this round without a push in between" } else { "popped in an earlier round / never pushed" }));
                        }
                    }
                }
            }
            rep.count("pop", popped_total as u64);
            rep.count("pop_of_block_pushed_in_same_round", popped_same_round);
            if popped_same_round > 0 {
                rep.count("rounds_pop_overlapped_push", 1);
            }
            if spills_round > 0 {
                rep.count("rounds_with_spill", 1);
            }
            spills_total += spills_round;
            let len = pool.0.len();
            if len != ck.held {
                ck.fail(rep, "len:quiescent-mismatch", round, &cfg,
                    format!("len()={} but pushed-popped={} (pushed {} popped {} this round)", len, ck.held, planned, popped_total));
            }
            // iterate_blocks == held set (each round in quick rounds it is O(held); do it always)
            let mut seen: Vec<u64> = Vec::with_capacity(ck.held);
            pool.0.iterate_blocks(&mut |b: Blk| seen.push(id_of(b)));
            check_set(rep, &ck, "iterate_blocks", round, &cfg, &mut seen);
            rep.count("iterate_checks", 1);

            let nontrivial = popped_same_round > 0 && spills_round > 0;
            let class = mix(
                mix(mix(ci, kind), bucket(popped_same_round as usize)),
                mix(bucket(ck.held), (spills_round.min(6)) as u64),
            );
            if nontrivial {
                rep.eval(class);
            } else {
                rep.evaluations += 1;
            }
            if rep.want_sample() && nontrivial && round > 3 {
                rep.sample(J::obj(vec![
                    ("config", J::s(cfg.clone())),
                    ("round", J::i(round)),
                    ("pushed", J::i(planned as u64)),
                    ("popped", J::i(popped_total as u64)),
                    ("popped_pushed_same_round", J::i(popped_same_round)),
                    ("local_queue_spills", J::i(spills_round)),
                    ("held_after", J::i(ck.held as u64)),
                ]));
            }

            // ------------- flush + drain rounds -------------
            let do_flush = rng.chance(1, 4) || round + 1 == rounds;
            if do_flush {
                pool.0.flush_all();
                rep.count("flush_all", 1);
                let len2 = pool.0.len();
                if len2 != ck.held {
                    ck.fail(rep, "len:after-flush-mismatch", round, &cfg, format!("len()={} held={}", len2, ck.held));
                }
                let mut seen: Vec<u64> = Vec::with_capacity(ck.held);
                pool.0.iterate_blocks(&mut |b: Blk| seen.push(id_of(b)));
                check_set(rep, &ck, "iterate_blocks-after-flush", round, &cfg, &mut seen);
                let drain_all = rng.chance(1, 2) || round + 1 == rounds;
                if drain_all {
                    // drain with the allocator threads (pops only, no push in flight)
                    let held_before = ck.held;
                    {
                        let mut p = plan.lock().unwrap();
                        p.push = vec![vec![]; w];
                        p.pop_quota = vec![usize::MAX; a];
                        p.linger = 0;
                        p.skew = vec![0; w];
                    }
                    pushers_running.store(w, Ordering::SeqCst);
                    poppers_ready.store(0, Ordering::SeqCst);
                    start.wait();
                    end.wait();
                    let popped: Vec<Vec<u64>> = std::mem::replace(&mut out.lock().unwrap().popped, vec![vec![]; a]);
                    let mut drained: Vec<u64> = popped.into_iter().flatten().collect();
                    // A popper may give up while another one still holds the last queue; finish
                    // single-threaded so that "not poppable" is a real verdict.
                    while let Some(b) = pool.0.pop() {
                        drained.push(id_of(b));
                    }
                    rep.count("drain_pop", drained.len() as u64);
                    rep.count("drains", 1);
                    check_set(rep, &ck, "drain-after-flush", round, &cfg, &mut drained);
                    for id in drained {
                        if id != 0 && (id as usize) <= max_ids && ck.state[id as usize] == Held::In {
                            ck.state[id as usize] = Held::Out;
                            ck.held -= 1;
                            out_ids.push(id);
                        }
                    }
                    if ck.held != 0 {
                        // un-poppable blocks: forget them so later rounds stay meaningful
                        for (i, st) in ck.state.iter_mut().enumerate() {
                            if *st == Held::In {
                                *st = Held::Out;
                                let _ = i;
                            }
                        }
                        // those ids are lost for good (never reused): keeps ids unique
                        ck.held = 0;
                        abort.store(true, Ordering::Relaxed);
                    }
                    if pool.0.len() != 0 {
                        ck.fail(rep, "len:after-drain-nonzero", round, &cfg,
                            format!("len()={} after draining {} held blocks", pool.0.len(), held_before));
                        abort.store(true, Ordering::Relaxed);
                    }
                    rep.eval(mix(mix(ci, 0xD8A1), bucket(held_before)));
                    rng.shuffle(&mut out_ids);
                }
            }
        }
        rep.count("local_queue_spills", spills_total);
        plan.lock().unwrap().stop = true;
        start.wait();
    });
    if abort.load(Ordering::Relaxed) {
        rep.note(format!("config[{}] stopped early after an unrecoverable mismatch", cfg));
    }
}

fn bucket(n: usize) -> u64 {
    if n == 0 {
        0
    } else {
        1 + (usize::BITS - n.leading_zeros()) as u64 / 3
    }
}

/// `got` must be exactly the set of held ids, each once.
fn check_set(rep: &mut Report, ck: &Checker, what: &str, round: u64, cfg: &str, got: &mut Vec<u64>) {
    got.sort_unstable();
    let mut dup = None;
    for i in 1..got.len() {
        if got[i] == got[i - 1] {
            dup = Some(got[i]);
            break;
        }
    }
    if let Some(d) = dup {
        ck.fail(rep, &format!("{}:duplicate", what), round, cfg, format!("block id {} reported twice", d));
    }
    let mut foreign = None;
    for &id in got.iter() {
        if id == 0 || id as usize >= ck.state.len() || ck.state[id as usize] != Held::In {
            foreign = Some(id);
            break;
        }
    }
    if let Some(f) = foreign {
        ck.fail(rep, &format!("{}:not-held", what), round, cfg, format!("block id {:#x} reported but not held (0 = uninitialised entry)", f));
    }
    let mut distinct = got.clone();
    distinct.dedup();
    if foreign.is_none() && distinct.len() != ck.held {
        // find one missing id
        let missing = (1..ck.state.len() as u64)
            .find(|&id| ck.state[id as usize] == Held::In && distinct.binary_search(&id).is_err());
        ck.fail(rep, &format!("{}:held-block-missing", what), round, cfg,
            format!("{} of {} held blocks reported; e.g. id {:?} missing", distinct.len(), ck.held, missing));
    }
}
