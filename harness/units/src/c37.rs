//! C37: Compressor forwarding addresses pack live objects in address order.
//!
//! The real `ForwardingMetadata` (through `mmtk::verif::compressor::Forwarding<HeaderVM>`) is driven
//! on 1 MiB-aligned data regions whose side metadata is mapped but whose *data* is not (so any read
//! of object memory other than through `VM::get_current_size` would fault).  For PRNG layouts of
//! non-overlapping objects (>= 2 words, word-aligned sizes) the monitor marks the live ones the way
//! `CompressorSpace::trace_mark_object` does, runs `calculate_offset_vector(region, cursor)` with a
//! page-aligned cursor (what `RegionPageResource` hands out), and then demands for every live
//! object `forward(start) == region_start + sum of sizes of live objects before it`, and that
//! `scan_marked_objects(region_start, cursor)` enumerates exactly the live objects in address order.
use crate::unitvm::{clear_sizes, objref, set_size, HeaderVM};
use crate::wdog::{run_with_watchdog, Heartbeat};
use mmtk::util::Address;
use mmtk::verif::compressor::{specs, Forwarding, REGION_BYTES};
use std::panic::{catch_unwind, AssertUnwindSafe};
use std::sync::atomic::Ordering;
use vcommon::{mix, Args, Report, Rng, J};

const BLOCK: usize = 512;
const WORD: usize = 8;
const PAGE: usize = 4096;

#[derive(Clone, Copy, Debug)]
struct Obj {
    off: usize,
    size: usize,
    live: bool,
}

#[derive(Clone, Copy, Debug, PartialEq)]
enum Mode {
    Dense,
    Sparse,
    Straddle,
    Boundary,
    Big,
    Mixed,
}

const MODES: [Mode; 6] = [Mode::Dense, Mode::Sparse, Mode::Straddle, Mode::Boundary, Mode::Big, Mode::Mixed];

fn align_up(x: usize, a: usize) -> usize {
    (x + a - 1) / a * a
}

/// Generate a layout of non-overlapping objects inside `[0, limit)`.
fn gen_layout(rng: &mut Rng, mode: Mode, limit: usize, max_objs: usize) -> Vec<Obj> {
    let mut objs = vec![];
    let mut pos = 0usize;
    let live_per_mille = match mode {
        Mode::Dense => 900,
        Mode::Sparse => 300,
        _ => *rng.pick(&[100u64, 500, 800, 1000]),
    };
    while objs.len() < max_objs {
        let m = if mode == Mode::Mixed { *rng.pick(&MODES[..5]) } else { mode };
        // gap before the object
        let gap = match m {
            Mode::Dense => {
                if rng.chance(9, 10) {
                    0
                } else {
                    WORD * rng.usize_below(4)
                }
            }
            Mode::Sparse => WORD * rng.usize_below(600),
            _ => WORD * rng.usize_below(40),
        };
        let mut start = pos + gap;
        let mut size = match m {
            Mode::Dense => WORD * (2 + rng.usize_below(8)),
            Mode::Sparse => WORD * (2 + rng.usize_below(30)),
            Mode::Big => WORD * (2 + rng.usize_below(2048)),
            _ => WORD * (2 + rng.usize_below(100)),
        };
        if matches!(m, Mode::Straddle | Mode::Boundary | Mode::Big) || rng.chance(1, 8) {
            let next_b = align_up(start + 1, BLOCK); // the next block boundary strictly above start
            match rng.below(7) {
                // start exactly at a block start
                0 => start = align_up(start, BLOCK),
                // end exactly at a block end
                1 => {
                    let b = next_b + BLOCK * rng.usize_below(3);
                    if b - start >= 2 * WORD {
                        size = b - start
                    } else {
                        size = b + BLOCK - start
                    }
                }
                // first word is the last word of a block
                2 => start = next_b - WORD,
                // last word is the first word of a block
                3 => {
                    let b = next_b + BLOCK * rng.usize_below(3);
                    size = b + WORD - start;
                }
                // straddle: start a few words before a boundary, end after it
                4 => {
                    let k = 1 + rng.usize_below(8);
                    if next_b >= start + k * WORD {
                        start = next_b - k * WORD;
                    }
                    size = size.max((k + 1) * WORD);
                }
                // exactly one block, aligned
                5 => {
                    start = align_up(start, BLOCK);
                    size = BLOCK * (1 + rng.usize_below(3));
                }
                // two-word object across the boundary
                _ => {
                    start = next_b - WORD;
                    size = 2 * WORD;
                }
            }
        }
        debug_assert!(start % WORD == 0 && size % WORD == 0 && size >= 2 * WORD && start >= pos);
        if start + size > limit {
            break;
        }
        objs.push(Obj {
            off: start,
            size,
            live: rng.below(1000) < live_per_mille,
        });
        pos = start + size;
    }
    objs
}

struct Ctx<'a> {
    fwd: Forwarding<HeaderVM>,
    mark: mmtk::util::metadata::side_metadata::SideMetadataSpec,
    offv: mmtk::util::metadata::side_metadata::SideMetadataSpec,
    layouts: u64,
    hb: &'a Heartbeat,
}

fn describe(region: Address, cursor: Address, objs: &[Obj]) -> String {
    let mut s = format!("region={} cursor=region+{:#x} objects(off,size,live)=[", region, cursor - region);
    let n = objs.len();
    for (i, o) in objs.iter().enumerate() {
        if n > 40 && i >= 20 && i < n - 20 {
            if i == 20 {
                s.push_str("...,");
            }
            continue;
        }
        s.push_str(&format!("({:#x},{},{}),", o.off, o.size, o.live as u8));
    }
    s.push(']');
    s
}

/// A minimal failing prefix description: the objects in the block of the failing object and the
/// preceding live object.
fn local_context(objs: &[Obj], idx: usize) -> String {
    let o = objs[idx];
    let blk = o.off / BLOCK * BLOCK;
    let mut s = String::new();
    for p in objs[..idx].iter().filter(|p| p.live && p.off + p.size > blk.saturating_sub(BLOCK)) {
        s.push_str(&format!("({:#x},{}),", p.off, p.size));
    }
    format!("block_off={:#x} live objects near/before in block: [{}] failing=({:#x},{})", blk, s, o.off, o.size)
}

fn check_layout(
    cx: &mut Ctx<'_>,
    rep: &mut Report,
    rng: &mut Rng,
    region: Address,
    objs: &[Obj],
    extra_pages: usize,
    mode_tag: u64,
) {
    cx.layouts += 1;
    let end_last = objs.last().map(|o| o.off + o.size).unwrap_or(0);
    let cursor_off = (align_up(end_last, PAGE) + extra_pages * PAGE).min(REGION_BYTES);
    let cursor = region + cursor_off;

    // prepare(): clear the mark bitmap of the whole region.  The offset vector is never cleared
    // by mmtk-core (stale values of earlier GCs stay): alternate between zeroed, stale and garbage.
    cx.mark.bzero_metadata(region, REGION_BYTES);
    match cx.layouts % 3 {
        0 => cx.offv.bzero_metadata(region, REGION_BYTES),
        1 => {
            let g = rng.next() as usize;
            let mut b = 0;
            while b < REGION_BYTES {
                cx.offv.store_atomic::<usize>(region + b, g ^ b, Ordering::Relaxed);
                b += BLOCK;
            }
        }
        _ => {}
    }
    clear_sizes();
    let mut live: Vec<(usize, Obj)> = vec![];
    for (i, o) in objs.iter().enumerate() {
        if o.live {
            let a = region + o.off;
            set_size(a, o.size);
            cx.fwd.mark_object(objref(a));
            live.push((i, *o));
        }
    }
    rep.count("layouts", 1);
    rep.count("live_objects", live.len() as u64);
    if live.is_empty() {
        rep.count("layouts_no_live", 1);
    }
    if cursor_off == REGION_BYTES {
        rep.count("layouts_cursor_at_region_end", 1);
    }
    if end_last == cursor_off && !objs.is_empty() {
        rep.count("layouts_full_to_cursor", 1);
    }

    cx.hb.enter("compressor:calculate_offset_vector/forward/scan", || describe(region, cursor, objs));
    let r = catch_unwind(AssertUnwindSafe(|| cx.fwd.calculate_offset_vector(region, cursor)));
    if r.is_err() {
        rep.violation("compressor:panic:calculate_offset_vector", describe(region, cursor, objs));
        cx.hb.leave();
        cx.fwd.release();
        return;
    }

    // forward() of every live object
    let mut expected_off = 0usize;
    let mut reported = false;
    for (n, (idx, o)) in live.iter().enumerate() {
        let a = region + o.off;
        let got = match catch_unwind(AssertUnwindSafe(|| cx.fwd.forward(a))) {
            Ok(g) => g,
            Err(_) => {
                rep.violation("compressor:panic:forward", describe(region, cursor, objs));
                break;
            }
        };
        let want = region + expected_off;
        // class of this case
        let start_in_block = o.off % BLOCK;
        let end = o.off + o.size;
        let start_class = if start_in_block == 0 {
            0u64
        } else if start_in_block == BLOCK - WORD {
            1
        } else {
            2
        };
        let end_class = if end % BLOCK == 0 {
            0u64
        } else if end % BLOCK == WORD {
            1
        } else {
            2
        };
        let spans = ((end - 1) / BLOCK - o.off / BLOCK).min(3) as u64;
        // is a live object open at the start of this object's block?
        let blk = o.off / BLOCK * BLOCK;
        let open_at_block_start = n > 0 && {
            let p = live[n - 1].1;
            p.off < blk && p.off + p.size > blk
        };
        let prev_end_in_block = n > 0 && {
            let p = live[n - 1].1;
            p.off + p.size > blk
        };
        let live_in_block_before = live[..n].iter().rev().take_while(|(_, p)| p.off >= blk).count().min(3) as u64;
        let nontrivial = n > 0 && (prev_end_in_block || spans > 0 || start_class != 2);
        if nontrivial {
            rep.eval(mix(
                mix(mix(start_class, end_class), mix(spans, open_at_block_start as u64)),
                mix(live_in_block_before, (expected_off == o.off) as u64),
            ));
        } else {
            rep.evaluations += 1;
        }
        if spans > 0 {
            rep.count("objects_straddling_block", 1);
        }
        if start_class == 0 {
            rep.count("objects_starting_at_block_start", 1);
        }
        if end_class == 0 {
            rep.count("objects_ending_at_block_end", 1);
        }
        if end_class == 1 {
            rep.count("objects_last_word_at_block_start", 1);
        }
        if start_class == 1 {
            rep.count("objects_first_word_at_block_end", 1);
        }
        if got != want && !reported {
            reported = true;
            rep.violation(
                format!(
                    "compressor:forward:start={}:end={}:spans={}:open_at_block_start={}:live_in_block_before={}",
                    ["block-start", "last-word-of-block", "mid"][start_class as usize],
                    ["block-end", "block-start+word", "mid"][end_class as usize],
                    spans,
                    open_at_block_start as u8,
                    live_in_block_before
                ),
                format!(
                    "forward(region+{:#x}) = region+{:#x}, expected region+{:#x} (live index {}); {}; {}",
                    o.off,
                    got.as_usize().wrapping_sub(region.as_usize()),
                    expected_off,
                    n,
                    local_context(objs, *idx),
                    describe(region, cursor, objs)
                ),
            );
        }
        if got.as_usize() > a.as_usize() && got == want {
            // cannot happen if the oracle is right
            rep.violation("compressor:oracle-inconsistent", "expected address above original");
        }
        expected_off += o.size;
    }

    // scan_marked_objects over [region, cursor)
    let mut seen: Vec<usize> = vec![];
    let r = catch_unwind(AssertUnwindSafe(|| {
        cx.fwd.scan_marked_objects(region, cursor, &mut |o| {
            seen.push(o.to_raw_address().as_usize() - region.as_usize())
        })
    }));
    cx.hb.leave();
    rep.evaluations += 1;
    if r.is_err() {
        rep.violation("compressor:panic:scan_marked_objects", describe(region, cursor, objs));
    } else {
        let want: Vec<usize> = live.iter().map(|(_, o)| o.off).collect();
        if seen != want {
            let first_diff = seen.iter().zip(want.iter()).position(|(a, b)| a != b).unwrap_or(seen.len().min(want.len()));
            rep.violation(
                "compressor:scan_marked_objects:mismatch",
                format!(
                    "got {} objects, expected {}; first difference at index {} (got {:?}, expected {:?}); {}",
                    seen.len(),
                    want.len(),
                    first_diff,
                    seen.get(first_diff).map(|x| format!("{:#x}", x)),
                    want.get(first_diff).map(|x| format!("{:#x}", x)),
                    describe(region, cursor, objs)
                ),
            );
        }
    }
    if rep.want_sample() && live.len() >= 3 && live.len() <= 12 {
        rep.sample(J::obj(vec![
            ("mode", J::i(mode_tag)),
            ("cursor_off", J::i(cursor_off as u64)),
            (
                "live(off,size)",
                J::Arr(live.iter().map(|(_, o)| J::Arr(vec![J::i(o.off as u64), J::i(o.size as u64)])).collect()),
            ),
        ]));
    }
    cx.fwd.release();
}

pub fn run(args: &Args, rep: &mut Report) {
    let mut rng = Rng::new(args.seed() ^ 0xC37);
    mmtk::verif::initialize_side_metadata::<HeaderVM>();
    let sp = specs();
    // three 1 MiB-aligned regions at different places; their data is NOT mapped.
    let bases: [usize; 3] = [0x0000_0200_0000_0000, 0x0000_0200_0250_0000, 0x0000_0310_3ff0_0000];
    let mut regions = vec![];
    for b in bases {
        let a = unsafe { Address::from_usize(b) };
        if mmtk::verif::map_side_metadata(&sp, a, REGION_BYTES) {
            regions.push(a);
        } else {
            rep.inconclusive(format!("could not map side metadata for region {:#x}", b));
        }
    }
    if regions.is_empty() {
        return;
    }
    let prev = std::panic::take_hook();
    std::panic::set_hook(Box::new(|_| {}));
    let thorough = args.thorough();
    run_with_watchdog(rep, |rep, hb| {
    let mut cx = Ctx {
        fwd: Forwarding::<HeaderVM>::new(),
        mark: sp[0],
        offv: sp[1],
        layouts: 0,
        hb,
    };

    // --- fixed corner layouts --------------------------------------------------------------
    let region = regions[0];
    // empty region: cursor == region start (no block is visited)
    check_layout(&mut cx, rep, &mut rng, region, &[], 0, 100);
    // allocated pages but nothing live
    check_layout(&mut cx, rep, &mut rng, region, &[], 3, 100);
    check_layout(&mut cx, rep, &mut rng, region, &[Obj { off: 0, size: 64, live: false }], 0, 100);
    // single objects at interesting places
    for &(off, size) in &[
        (0usize, 16usize),
        (0, 512),
        (0, 520),
        (496, 16),
        (504, 16),
        (504, 520),
        (512, 16),
        (8, 504),
        (8, 512),
        (4080, 16),
        (4088, 16),
        (REGION_BYTES - 16, 16),
        (REGION_BYTES - 520, 520),
        (0, REGION_BYTES),
        (8, REGION_BYTES - 8),
        (0, PAGE),
    ] {
        check_layout(&mut cx, rep, &mut rng, region, &[Obj { off, size, live: true }], 0, 101);
        // with a live predecessor and successor
        if off >= 16 && off + size + 16 <= REGION_BYTES {
            check_layout(
                &mut cx,
                rep,
                &mut rng,
                region,
                &[
                    Obj { off: 0, size: 16, live: true },
                    Obj { off, size, live: true },
                    Obj { off: off + size, size: 16, live: true },
                ],
                0,
                102,
            );
        }
    }
    // region full of two-word objects, all live (forward == identity), and every other one live
    for stride_live in [1usize, 2, 3] {
        let objs: Vec<Obj> = (0..REGION_BYTES / 16)
            .map(|i| Obj { off: i * 16, size: 16, live: i % stride_live == 0 })
            .collect();
        check_layout(&mut cx, rep, &mut rng, region, &objs, 0, 103);
    }
    // region full of 24-byte objects (they drift across all block offsets)
    {
        let objs: Vec<Obj> = (0..REGION_BYTES / 24).map(|i| Obj { off: i * 24, size: 24, live: i % 5 != 0 }).collect();
        check_layout(&mut cx, rep, &mut rng, region, &objs, 0, 104);
    }

    // --- PRNG layouts -----------------------------------------------------------------------
    let (small, large) = if thorough { (3_000_000, 40_000) } else { (150_000, 2_000) };
    for i in 0..small {
        let region = regions[i % regions.len()];
        let mode = MODES[rng.usize_below(MODES.len())];
        // small used area: 1..32 blocks, anywhere page-aligned... objects are laid out from the
        // region start (allocation is bump-pointer from the start), so only the extent varies.
        let limit = match rng.below(4) {
            0 => BLOCK * (1 + rng.usize_below(4)),
            1 => PAGE * (1 + rng.usize_below(4)),
            _ => WORD * (2 + rng.usize_below(12 * PAGE / WORD)),
        };
        let max_objs = match rng.below(5) {
            0 => 1,
            1 => 2,
            _ => usize::MAX,
        };
        let mut objs = gen_layout(&mut rng, mode, limit, max_objs);
        // sometimes make the last object end exactly at the page-aligned cursor
        if rng.chance(1, 6) {
            if let Some(l) = objs.last_mut() {
                l.size = align_up(l.off + l.size, PAGE) - l.off;
            }
        }
        let extra = if rng.chance(1, 4) { rng.usize_below(4) } else { 0 };
        check_layout(&mut cx, rep, &mut rng, region, &objs, extra, mode as u64);
    }
    for i in 0..large {
        let region = regions[i % regions.len()];
        let mode = MODES[rng.usize_below(MODES.len())];
        let limit = if rng.chance(1, 2) {
            REGION_BYTES
        } else {
            WORD * (2 + rng.usize_below(REGION_BYTES / WORD - 1))
        };
        let mut objs = gen_layout(&mut rng, mode, limit, usize::MAX);
        if rng.chance(1, 4) {
            if let Some(l) = objs.last_mut() {
                l.size = align_up(l.off + l.size, PAGE) - l.off;
            }
        }
        check_layout(&mut cx, rep, &mut rng, region, &objs, 0, 10 + mode as u64);
    }
    });
    std::panic::set_hook(prev);
    clear_sizes();
    rep.note("data regions are not mapped: only side metadata is; object sizes come from the harness table via VM::get_current_size");
    rep.note("cursor = end of last allocated object rounded up to a page (+0..3 pages), as RegionPageResource cursors are page-aligned; mark bitmap zeroed per layout as CompressorSpace::prepare does; offset vector alternately zeroed / garbage / stale (mmtk-core never clears it)");
}
