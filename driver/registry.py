"""Registry of checks: per property the shards to run, coverage floors, and manifest texts."""

CHECKS = {}


def unit(pid, title, rule, technique, level_text, note, design_ref, floors=None, shards=None,
         exhaustive=False, assumptions=None, parallel=8, **kw):
    if shards is None:
        def shards(tier, seed, _pid=pid):
            return [dict(pkg="units", variant="A", args=[_pid])]
    CHECKS[pid] = dict(title=title, rule=rule, technique=technique, level="exploration",
                       level_text=level_text, level_note=note, design_ref=design_ref,
                       floors=floors or {}, shards=shards, exhaustive=exhaustive,
                       assumptions=assumptions or [], engine="units", parallel=parallel, **kw)


unit("C40", "Revisitable group-by partitions its input into maximal runs",
     rule="every sequence over a 3-letter alphabet up to length 8 (quick) / 10 (thorough) plus PRNG sequences "
          "(length<300, alphabets 1..5, sticky runs), each under 4 key functions and under partial group consumption; "
          "a case is non-trivial when it has >=2 groups and a group of >=2 items; distinct = distinct (length, "
          "group-length vector, key function) classes (hashed, capped at 50000 per process)",
     technique="reference-model monitor (definition of maximal-run partition) over enumerated + PRNG inputs, real iterator via hook wrapper",
     level_text="Differential run of the real RevisitableGroupBy iterator against the definition (concatenation, maximal runs, "
                "len == count, key shared, adjacent keys differ, partial consumption independent) on an exhaustive small "
                "domain plus random long sequences. Bounded exploration, not a proof.",
     note="Trusts the 10-line reference partition function in units/src/c40.rs and the verif::rev_group_by wrapper (collects groups).",
     design_ref="2/C40",
     floors={"quick": {"evaluations": 50000, "exhaustive_sequences": 9000}})

# Properties not claimed, with the reason (kept current).
NOT_APPLICABLE = {}

unit("C23", "In-header metadata fields are isolated and report their own previous value",
     rule="every (bit_offset in -64..=191, num_of_bits) spec the implementation's own assert_spec admits (1180 specs: sub-byte fields "
          "accessed through u8..usize, aligned 8/16/32/64-bit fields with masks none/all-ones/low-3-clear/forwarding-style/single-byte/random) "
          "x every accessor (load, store, atomic variants, compare_exchange success+failure, fetch_add/sub/and/or, fetch_update Some/None) "
          "x randomly pre-filled 64-byte headers, plus 64-op sequences on a persistent header; non-trivial = neighbouring bits are non-zero or the "
          "op wraps/fails; distinct = (op, width, shift-in-byte, masked?, access type, outcome class)",
     technique="reference-model monitor: bit-vector model of the header vs the real HeaderMetadataSpec accessors, whole-buffer comparison after every op",
     level_text="Every accessor of every legal header spec is run on randomly pre-filled headers and compared (return value incl. CAS Ok/Err "
                "values, and the full buffer) with a bit-vector model. Exhaustive over specs and ops, sampled over header contents.",
     note="Trusts the bit-vector model in units/src/c23.rs; orderings restricted to SeqCst/Relaxed/Acquire (Release orderings on sub-byte "
          "fields panic inside std by construction of the implementation and are outside the property's statement).",
     design_ref="2/C23", miri=True,
     floors={"quick": {"evaluations": 9000000, "ops_with_nonzero_neighbour_bits": 8000000, "cas_expected_ok": 800000,
                       "cas_expected_err": 500000, "ops_wide_field_masked": 300000}})

unit("C32", "Space descriptors encode and decode their heap range",
     rule="three discontiguous VM layouts (32-bit, custom heap end, 64-bit range) x start = odd 14-bit mantissa << (18+e), e in 4..=31 x 1..=1023 chunks: "
          "all mantissas/exponents x boundary chunk counts, boundary mantissas x all chunk counts, every range touching heap_end, 1M PRNG pairs per layout "
          "(thorough: fully exhaustive + 20M PRNG); 400k+ discontiguous descriptors created sequentially and from 4 threads; distinct = (layout, exponent, "
          "mantissa class, chunk class, top-of-heap?)",
     technique="round-trip monitor against the arithmetic definition (u128) of start/extent/contiguity/top-of-heap; uniqueness set for discontiguous descriptors",
     level_text="Differential round-trip of create_descriptor_from_heap_range against the definition over the encodable lattice (exhaustive in the thorough tier) "
                "and uniqueness of discontiguous descriptors incl. concurrent creation.",
     note="Each layout runs in the same process via set_vm_layout (release build accepts re-setting); starts needing >14 mantissa bits are outside the encoding and only counted.",
     design_ref="2/C32",
     floors={"quick": {"contiguous_ranges_checked": 12000000, "top_of_heap_ranges": 1850, "layouts_run": 3,
                       "discontiguous_descriptors": 800000, "discontiguous_concurrent": 400000}})

unit("C33", "Alignment and size arithmetic meet their specifications",
     rule="boundary lattice (0, 1, 2^k+-1, 1.5*2^k, usize::MAX-d, q*align+-1) x all 64 power-of-two alignments + 2.5M PRNG values (thorough 200M) for "
          "raw_align_up/down, rshift_align_up, bytes_to_pages_up, chunk/page helpers, Address::align_*; align_allocation(_no_fill) called directly on arbitrary regions "
          "(incl. near usize::MAX) and through the bump and large-object allocators of a live MMTK (gap fill with ALIGNMENT_VALUE, nothing else written); "
          "get_maximum_aligned_size vs the worst-case padding; overflowing inputs excluded as the property says; distinct = (function, alignment, boundary class)",
     technique="reference-model monitor: u128 arithmetic definitions vs the real functions; shadow buffer comparison for the alignment-gap fill",
     level_text="Differential test of every rounding helper against its mathematical definition over a boundary lattice plus random inputs; align_allocation is also "
                "observed inside real bump/LOS allocations with a shadow of the touched memory.",
     note="Inputs whose mathematical result exceeds usize::MAX are excluded (the property's 'does not overflow').",
     design_ref="2/C33", miri=True,
     floors={"quick": {"arith_lattice_cases": 22000, "arith_random_cases": 2500000, "bump_fast_path": 200000, "bump_slow_path": 1000,
                       "los_allocations": 2000, "max_aligned_size_via_mi_bin_sharp": 296}})

unit("C39", "Option setting is all-or-nothing and parsers match their grammar",
     rule="~120 fixed boundary strings + grammar-directed generation with 1-2 mutations and foreign-typed values over every option name (boundary numbers 0, 2^16, 2^32, 2^63, "
          "2^64+-1, suffix-overflow thresholds, 40-digit strings, unicode digits/whitespace): 250k single set_from_string calls and 50k bulk strings (thorough 15M / 2M); "
          "reference parsers written from the doc comments; only strings the documentation classifies unambiguously are judged; distinct = (option, string class, expected verdict, mutation kind)",
     technique="reference-model monitor: independent parsers/validators written from the documented grammar + full snapshot comparison of all 28 options before/after each call",
     level_text="Every call's boolean result, the all-or-nothing effect on all options, the parsed value, and bulk = prefix-of-pairs semantics are compared with reference parsers; "
                "free-standing FromStr parsers likewise. Sampled exploration of the string space.",
     note="Ambiguous strings (e.g. 'Delegated:1024', T suffix, '+0') are recorded as notes, not judged. CPU lists wider than 2000 cores skipped (quadratic sort in the implementation).",
     design_ref="2/C39", miri=True,
     floors={"quick": {"single_settings": 250000, "bulk_strings": 50000, "bulk_all_succeed": 10000, "bulk_with_failure": 25000,
                       "set_expected_accept": 40000, "set_expected_reject": 100000, "from_str_invalid": 50000}})
