"""Registry of checks: per property the shards to run, coverage floors, and manifest texts."""

CHECKS = {}


def unit(pid, title, rule, technique, level_text, note, design_ref, floors=None, shards=None,
         exhaustive=False, assumptions=None, parallel=8, **kw):
    if shards is None:
        def shards(tier, seed, _pid=pid):
            return [dict(pkg="units", variant="A", args=[_pid])]
    CHECKS[pid] = dict(title=title, rule=rule, technique=technique, level="exploration",
                       level_text=level_text, level_note=note, design_ref=design_ref,
                       floors=floors or {}, shards=shards, exhaustive=exhaustive,
                       assumptions=assumptions or [], engine="units", parallel=parallel, **kw)


unit("C40", "Revisitable group-by partitions its input into maximal runs",
     rule="every sequence over a 3-letter alphabet up to length 8 (quick) / 10 (thorough) plus PRNG sequences "
          "(length<300, alphabets 1..5, sticky runs), each under 4 key functions and under partial group consumption; "
          "a case is non-trivial when it has >=2 groups and a group of >=2 items; distinct = distinct (length, "
          "group-length vector, key function) classes (hashed, capped at 50000 per process)",
     technique="reference-model monitor (definition of maximal-run partition) over enumerated + PRNG inputs, real iterator via hook wrapper",
     level_text="Differential run of the real RevisitableGroupBy iterator against the definition (concatenation, maximal runs, "
                "len == count, key shared, adjacent keys differ, partial consumption independent) on an exhaustive small "
                "domain plus random long sequences. Bounded exploration, not a proof.",
     note="Trusts the 10-line reference partition function in units/src/c40.rs and the verif::rev_group_by wrapper (collects groups).",
     design_ref="2/C40",
     floors={"quick": {"evaluations": 50000, "exhaustive_sequences": 9000}})

# Properties not claimed, with the reason (kept current).
NOT_APPLICABLE = {}
