"""Registry of checks: per property the shards to run, coverage floors, and manifest texts."""

CHECKS = {}


def miri_shard(pid, seeds=None, extra=()):
    """The monitor of `pid` under `cargo +nightly miri run` with --tier miri budgets (thorough tier only)."""
    d = dict(pkg="units", variant="A", args=[pid] + list(extra), miri=True, timeout=5400, tier_arg="miri")
    if seeds and seeds > 1:
        d["miri_seeds"] = seeds
    return d


def unit(pid, title, rule, technique, level_text, note, design_ref, floors=None, shards=None,
         exhaustive=False, assumptions=None, parallel=8, **kw):
    if shards is None:
        def shards(tier, seed, _pid=pid, _miri=kw.get("miri_tier")):
            out = [dict(pkg="units", variant="A", args=[_pid])]
            if _miri and tier == "thorough":
                out.append(miri_shard(_pid, _miri))
            return out
    CHECKS[pid] = dict(title=title, rule=rule, technique=technique, level="exploration",
                       level_text=level_text, level_note=note, design_ref=design_ref,
                       floors=floors or {}, shards=shards, exhaustive=exhaustive,
                       assumptions=assumptions or [], engine="units", parallel=parallel, **kw)


unit("C40", "Revisitable group-by partitions its input into maximal runs",
     rule="every sequence over a 3-letter alphabet up to length 8 (quick) / 10 (thorough) plus PRNG sequences "
          "(length<300, alphabets 1..5, sticky runs), each under 4 key functions and under partial group consumption; "
          "a case is non-trivial when it has >=2 groups and a group of >=2 items; distinct = distinct (length, "
          "group-length vector, key function) classes (hashed, capped at 50000 per process)",
     technique="reference-model monitor (definition of maximal-run partition) over enumerated + PRNG inputs, real iterator via hook wrapper",
     level_text="Differential run of the real RevisitableGroupBy iterator against the definition (concatenation, maximal runs, "
                "len == count, key shared, adjacent keys differ, partial consumption independent) on an exhaustive small "
                "domain plus random long sequences. Bounded exploration, not a proof.",
     note="Trusts the 10-line reference partition function in units/src/c40.rs and the verif::rev_group_by wrapper (collects groups).",
     design_ref="2/C40", miri=True, miri_tier=1,
     floors={"quick": {"evaluations": 50000, "exhaustive_sequences": 9000}})

# Properties not claimed, with the reason (kept current).
NOT_APPLICABLE = {}

unit("C23", "In-header metadata fields are isolated and report their own previous value",
     rule="every (bit_offset in -64..=191, num_of_bits) spec the implementation's own assert_spec admits (1180 specs: sub-byte fields "
          "accessed through u8..usize, aligned 8/16/32/64-bit fields with masks none/all-ones/low-3-clear/forwarding-style/single-byte/random) "
          "x every accessor (load, store, atomic variants, compare_exchange success+failure, fetch_add/sub/and/or, fetch_update Some/None) "
          "x randomly pre-filled 64-byte headers, plus 64-op sequences on a persistent header; non-trivial = neighbouring bits are non-zero or the "
          "op wraps/fails; distinct = (op, width, shift-in-byte, masked?, access type, outcome class); "
          "concurrent phase: 300 rounds (thorough 4000) in which 2-4 real threads each own some of the disjoint fields of ONE header (a byte split into 1-3-bit fields, or a 64-bit "
          "masked field forwarding-word style with sub-byte fields in its excluded low bits and a byte field in its excluded top byte) and run 8000 atomic ops on them: "
          "every return value is determined by the owner's private model, and at the join the header equals the merged models",
     technique="reference-model monitor: bit-vector model of the header vs the real HeaderMetadataSpec accessors, whole-buffer comparison after every op; single-owner-per-field histories under real threads for isolation of the atomic accessors",
     level_text="Every accessor of every legal header spec is run on randomly pre-filled headers and compared (return value incl. CAS Ok/Err "
                "values, and the full buffer) with a bit-vector model. Exhaustive over specs and ops, sampled over header contents.",
     note="Trusts the bit-vector model in units/src/c23.rs; orderings restricted to SeqCst/Relaxed/Acquire (Release orderings on sub-byte "
          "fields panic inside std by construction of the implementation and are outside the property's statement).",
     design_ref="2/C23", miri=True, miri_tier=1,
     floors={"quick": {"evaluations": 9000000, "ops_with_nonzero_neighbour_bits": 8000000, "cas_expected_ok": 800000,
                       "cas_expected_err": 500000, "ops_wide_field_masked": 300000, "concurrent_ops": 2000000,
                       "concurrent_fetch_update_closure_retries": 5, "concurrent_rounds_masked_word": 50, "concurrent_rounds_split_byte": 50}})

unit("C32", "Space descriptors encode and decode their heap range",
     rule="three discontiguous VM layouts (32-bit, custom heap end, 64-bit range) x start = odd 14-bit mantissa << (18+e), e in 4..=31 x 1..=1023 chunks: "
          "all mantissas/exponents x boundary chunk counts, boundary mantissas x all chunk counts, every range touching heap_end, 1M PRNG pairs per layout "
          "(thorough: fully exhaustive + 20M PRNG); 400k+ discontiguous descriptors created sequentially and from 4 threads; distinct = (layout, exponent, "
          "mantissa class, chunk class, top-of-heap?)",
     technique="round-trip monitor against the arithmetic definition (u128) of start/extent/contiguity/top-of-heap; uniqueness set for discontiguous descriptors",
     level_text="Differential round-trip of create_descriptor_from_heap_range against the definition over the encodable lattice (exhaustive in the thorough tier) "
                "and uniqueness of discontiguous descriptors incl. concurrent creation.",
     note="Each layout runs in the same process via set_vm_layout (release build accepts re-setting); starts needing >14 mantissa bits are outside the encoding and only counted.",
     design_ref="2/C32",
     floors={"quick": {"contiguous_ranges_checked": 12000000, "top_of_heap_ranges": 1500, "layouts_run": 3,
                       "discontiguous_descriptors": 800000, "discontiguous_concurrent": 400000}})

unit("C33", "Alignment and size arithmetic meet their specifications",
     rule="boundary lattice (0, 1, 2^k+-1, 1.5*2^k, usize::MAX-d, q*align+-1) x all 64 power-of-two alignments + 2.5M PRNG values (thorough 200M) for "
          "raw_align_up/down, rshift_align_up, bytes_to_pages_up, chunk/page helpers, Address::align_*; align_allocation(_no_fill) called directly on arbitrary regions "
          "(incl. near usize::MAX) and through the bump and large-object allocators of a live MMTK (gap fill with ALIGNMENT_VALUE, nothing else written); "
          "get_maximum_aligned_size vs the worst-case padding; overflowing inputs excluded as the property says; distinct = (function, alignment, boundary class)",
     technique="reference-model monitor: u128 arithmetic definitions vs the real functions; shadow buffer comparison for the alignment-gap fill",
     level_text="Differential test of every rounding helper against its mathematical definition over a boundary lattice plus random inputs; align_allocation is also "
                "observed inside real bump/LOS allocations with a shadow of the touched memory.",
     note="Inputs whose mathematical result exceeds usize::MAX are excluded (the property's 'does not overflow').",
     design_ref="2/C33", miri=True, shards=lambda tier, seed: [dict(pkg="units", variant="A", args=["C33"])] + ([miri_shard("C33", None, ["--case", "arith"])] if tier == "thorough" else []),
     floors={"quick": {"arith_lattice_cases": 22000, "arith_random_cases": 2500000, "bump_fast_path": 200000, "bump_slow_path": 1000,
                       "los_allocations": 2000, "max_aligned_size_via_mi_bin_sharp": 296}})

unit("C39", "Option setting is all-or-nothing and parsers match their grammar",
     rule="~120 fixed boundary strings + grammar-directed generation with 1-2 mutations and foreign-typed values over every option name (boundary numbers 0, 2^16, 2^32, 2^63, "
          "2^64+-1, suffix-overflow thresholds, 40-digit strings, unicode digits/whitespace): 250k single set_from_string calls and 50k bulk strings (thorough 15M / 2M); "
          "reference parsers written from the doc comments; only strings the documentation classifies unambiguously are judged; distinct = (option, string class, expected verdict, mutation kind)",
     technique="reference-model monitor: independent parsers/validators written from the documented grammar + full snapshot comparison of all 28 options before/after each call",
     level_text="Every call's boolean result, the all-or-nothing effect on all options, the parsed value, and bulk = prefix-of-pairs semantics are compared with reference parsers; "
                "free-standing FromStr parsers likewise. Sampled exploration of the string space.",
     note="Ambiguous strings (e.g. 'Delegated:1024', T suffix, '+0') are recorded as notes, not judged. CPU lists wider than 2000 cores skipped (quadratic sort in the implementation).",
     design_ref="2/C39",
     floors={"quick": {"single_settings": 250000, "bulk_strings": 50000, "bulk_all_succeed": 10000, "bulk_with_failure": 25000,
                       "set_expected_accept": 40000, "set_expected_reject": 100000, "from_str_invalid": 50000}})

unit("C19", "Block pool never loses or duplicates a block",
     rule="rounds of the real usage protocol on a BlockPool of unique-id blocks: W worker threads (own ordinals) push concurrently while A allocator threads pop; "
          "flush_all/iterate only at quiescent barriers; local queue capacity 256 exceeded up to 4x per round; (W,A) in {(4,4),(6,2),(2,2),(1,1),(3,5),(7,1)}; "
          "1500 rounds per config quick / 18000 thorough; non-trivial round = pops overlapped pushes or a local queue spilled; distinct = (config, spill count class, overlap class, flush/drain kind)",
     technique="offline conservation checker over recorded unique-id push/pop histories of real threads (in = out + held), with failpoints widening BlockQueue::pop/replace windows",
     level_text="Real-thread stress of BlockPool with unique block ids; at every quiescent barrier: popped ids were held, no id popped twice, len == pushed - popped, iterate_blocks == held set, "
                "drain after flush_all == held set. Explores the interleavings the OS scheduler and the failpoints produce.",
     note="Only the protocol BlockPageResource uses is exercised (flush with no push in flight). Interleaving coverage is whatever 8 threads on 16 cores produce; not exhaustive.",
     design_ref="2/C19", miri=True, parallel=2, miri_tier=3,
     floors={"quick": {"rounds": 9000, "rounds_pop_overlapped_push": 3000, "rounds_with_spill": 4000, "local_queue_spills": 30000,
                       "pop_of_block_pushed_in_same_round": 2000000, "drains": 500, "flush_all": 1200}})

unit("C20", "Side metadata behaves as an array of independent fixed-width integers",
     rule="42 specs (1..64 bits x region 2^{3,4,8,12,15,22}) each with a window of 256-512 fields straddling a metadata page boundary, pre-filled with a random pattern; "
          "1.5M-op random histories per spec (thorough 40M) of load/store/atomic/set_zero/compare_exchange ok+fail/fetch_add/sub/and/or/fetch_update accept+reject, 25% of data addresses not region aligned, "
          "fields biased to neighbours sharing a byte/word; distinct = (op, width, region, shift-in-byte, neighbour relation, outcome); "
          "concurrent phase: 14 windows (7 widths x region 2^{3,12}) x {2,3,4} real threads, field i owned by thread i mod T (so fields sharing a byte/word change concurrently), "
          "150k (thorough 2M) atomic ops per thread on owned fields only: every return value is determined by the owner's private model; at the join the whole window equals the merged models; "
          "observer phase: one writer keeps 8 neighbouring fields odd at all times with the atomic accessors while 1 or 3 observer threads read the same fields (load_atomic and value-preserving RMWs): an even value is one the field never held",
     technique="reference-model monitor: Vec<u64> field model vs real SideMetadataSpec accessors; whole raw metadata window (with margins) compared byte-by-byte after every op; single-owner-per-field histories under real threads for independence of the atomic accessors",
     level_text="Every return value and the full metadata window are compared with a field-array model after every operation of long random histories on randomly pre-filled metadata; "
                "all widths and several region sizes enumerated.",
     note="Values always fit the field width and T matches the width as the API requires. Memory orderings are not part of the property: Release-ordering panics on sub-byte specs are recorded as notes only.",
     design_ref="2/C20",
     floors={"quick": {"configs": 42, "evaluations": 50000000, "selftest_mutants_caught": 6, "concurrent_windows": 42, "concurrent_ops": 15000000, "observer_reads": 200000, "observer_distinct_values_seen": 100,
                       "concurrent_fetch_update_closure_retries": 5}})

unit("C21", "Bulk side-metadata zero/set/copy touch exactly the covered regions",
     rule="42 specs x {bzero, bset, bcopy between equal-shape specs}: windows centred on a metadata chunk/page boundary, randomly refilled before every call; all (start,end) pairs within +-140 fields "
          "of the centre (thorough +-400) + random pairs + long ranges with both ends near page/word/byte boundaries; region-aligned start/size (API contract); distinct = (op, width, start bit, end bit, crossing class)",
     technique="reference-model monitor: per-field loop model vs real bulk operations; full destination window compared, source window unchanged",
     level_text="Exhaustive small-window enumeration of ranges around metadata byte/word/page/chunk boundaries for every width, compared with a per-field model on random pre-filled metadata.",
     note="Only region-aligned start/size are used (the documented contract).",
     design_ref="2/C21",
     floors={"quick": {"evaluations": 2500000, "partial_start_byte": 1000000, "partial_end_byte": 1000000, "within_one_byte": 30000,
                       "crosses_word": 2000000, "crosses_page_or_chunk_centre": 1000000, "selftest_mutants_caught": 17}})

unit("C22", "Side-metadata search and scan agree with a naive scan",
     rule="42 specs x 10 bitmap patterns (zero, single, sparse, dense, all-but-one, word-boundary pairs, runs, high-bit-only) over windows of up to 4096 fields starting mid-word; find_prev/find_next "
          "with range ends exactly on / one byte past / one byte before region starts, small/random/maximal/limit=1 ranges, 1/3 unaligned data addresses; scan_non_zero_values aligned and unaligned; "
          "an edge child process with the window against unmapped data/metadata; distinct = (function, width, region, result locality class, range-end class, alignment)",
     technique="reference-model monitor: own region-by-region loop over load_atomic vs the real search/scan functions, in a release build (mmtk's internal debug cross-check is not what decides)",
     level_text="Differential test of the fast search/scan paths against a naive per-region scan for all widths, many bitmap shapes and range placements incl. unmapped edges.",
     note="The data window is made Address::is_mapped() through a carrier spec; edge cases skipped for specs whose metadata chunk covers >= 2^42 data bytes.",
     design_ref="2/C22",
     floors={"quick": {"find_prev_queries": 120000, "find_next_queries": 120000, "scan_queries": 30000, "result_same_metadata_word": 8000,
                       "result_other_word": 40000, "unaligned_data_addr": 80000, "edge_configs": 30, "selftest_mutants_caught": 21}})

unit("C25", "Side-metadata sanity checking rejects exactly the overlapping spec sets",
     rule="all ordered pairs of 139 spec shapes (1..64 bits x region 2^3..2^22, range <= 2^46) x 8 placement relations (same offset, directly after, after-8, far after, directly before, before+8, inside, after+8) "
          "x 3 base slots x {global, local} through the non-panicking core of the sanity check, random triples, and a sample of every (kind, relation) class through the real panicking verify_metadata_context in child processes; "
          "only sets that pass the other sanity checks, so panic <=> overlap; distinct = (kind, relation, shape class, path)",
     technique="reference-model monitor: own interval-overlap predicate over [start, start+range) vs SideMetadataSanity (real panic path in forked children + in-process hook)",
     level_text="Exhaustive over a generated family of spec pairs for both the global and local rules; the real panic path is exercised for every class.",
     note="Specs are synthetic (not mapped); other sanity conditions (size limits, is_global flags) are kept satisfied so they cannot explain a panic.",
     design_ref="2/C25", exhaustive=True,
     floors={"quick": {"evaluations": 800000, "sets_via_hook": 800000, "sets_via_real_panic_path": 300, "sets_overlapping_via_real_panic_path": 100}})

unit("C26", "Free lists allocate disjoint runs and coalesce back completely",
     rule="10000 histories (thorough 250000) of alloc/alloc_from_unit/free/size/set+clear_uncoalescable over IntArrayFreeList (single, parent+children with 1..8 heads, Map32's resize protocol) and "
          "RawMemoryFreeList (generic growth, Map64 protocol), units 1..4096, all grains; free-structure walk compared mid-history and after freeing everything; distinct = (scenario, units class, heads, grain class, marks, history outcome)",
     technique="reference-model monitor: run-partition model vs real free lists, comparing every return value and the walked free structure",
     level_text="Long random histories consistent with the callers' protocols against a partition model: disjointness, size(), alloc fails iff no fitting run, full coalescing back to the initial runs.",
     note="Histories obey the legality rules of the callers (free only run heads, no cross-head coalescing without an uncoalescable boundary). RawMemoryFreeList block sizes restricted to divisors of the table size (the non-divisor case is C27).",
     design_ref="2/C26", miri=True, miri_tier=1,
     floors={"quick": {"evaluations": 3500000, "op_alloc": 1000000, "op_free": 800000, "op_alloc_from_unit": 500000, "free_coalesced": 400000,
                       "free_blocked_by_uncoalescable": 100000, "free_structure_checks": 40000, "restore_initial_checks": 2000, "histories_freed_everything": 10000}})

unit("C27", "A raw-memory free list can grow to its configured maximum",
     rule="~350 cases (thorough ~3100), each in a child process: unit counts whose table size is / is not a multiple of the block size x pages_per_block {default,1,2,16} x heads {1,2,7} x grain {units,2,64,1024} x "
          "growth in one shot / fine / random steps; distinct = (table-multiple-of-block?, ppb, heads, grain, step kind, multi-block?)",
     technique="fault-isolating monitor: each growth history runs in a subprocess; oracle on grow results, /proc/self/maps beyond the limit, and exactly-once allocation of every unit",
     level_text="Every grow_freelist up to the maximum must succeed without panic, nothing may be mapped at/after the limit, every unit must be allocatable exactly once, growing beyond the maximum must fail.",
     note="Set-up mirrors Map64 (chunk-aligned base in a quarantined arena).",
     design_ref="2/C27", parallel=2,
     floors={"quick": {"cases": 300, "cases_table_not_multiple_of_block": 100, "cases_table_multiple_of_block": 150, "cases_multi_block": 150}})

unit("C35", "Mark-sweep size classes fit every request",
     rule="exhaustive: 4 VM alignment configurations (MIN/MAX alignment 4/64, 4/8, 8/8, 8/16) x every size 0..=MI_LARGE_OBJ_SIZE_MAX (multiples of MIN_ALIGNMENT) x every power-of-two align in MIN..=MAX; "
          "bin in 1..=MAX_BIN, bin_size >= aligned request, monotone in size and align, table strictly increasing; real get_maximum_aligned_size cross-checked against the worst gap align_allocation_no_fill inserts; distinct = (vm, align, bin)",
     technique="exhaustive enumeration against the arithmetic definition (finite domain)",
     level_text="The whole finite request domain is enumerated for four alignment configurations.",
     note="The free-list half of the property (cells disjoint, strided from the block start, inside the block) is observed in live mark-sweep spaces: gcsim scenario msblocks allocates more than two blocks' worth of cells of every size class "
          "(raw allocations of exactly the cell size), on fresh blocks and again on blocks recycled by a GC, in the MarkSweep plan (variants A, B, D) and in the mark-sweep non-moving space of variant D.",
     design_ref="2/C35", exhaustive=True, crash_is_violation=True, crash_sig=lambda shard, res: "crash:%s:%s" % (shard["variant"], _plan_of(shard) if shard["pkg"] == "gcsim" else "units"),
     shards=lambda tier, seed: [dict(pkg="units", variant="A", args=["C35"])] + [
         gc_shard(v, plan, _rng(seed, 35 + i), 1, mutators=1, workers=2, heap=64, stress=0, scenario="msblocks")
         for i, (v, plan) in enumerate([("A", "MarkSweep"), ("B", "MarkSweep"), ("D", "MarkSweep"), ("D", "SemiSpace")])],
     floors={"quick": {"evaluations": 139000, "requests_core": 139000, "size_classes_allocated_live": 250, "live_cells_checked": 250000, "live_blocks_seen": 400}})

unit("C36", "The large-object treadmill accounts for every object exactly once",
     rule="4000 histories (thorough 40000) following the LargeObjectSpace protocol: add (nursery / allocate-as-live), flip(full?), copy of each marked object exactly once, collect_nursery (+collect_mature when full), "
          "[plus gcsim runs of SemiSpace, Immix, GenImmix, GenCopy, StickyImmix, MarkSweep, Compressor, MarkCompact with large objects of all ages: LargeObjectSpace::trace_object/sweep drive the real treadmill; "
          "a reachable large object whose memory is gone or reused after a collection is a violation] "
          "ending with a full GC that marks nothing; every 25th history issues copies/adds from 2-4 threads; distinct = (GC kind, set-size classes, marked fraction class, address reuse?)",
     technique="reference-model monitor: four id-set model vs the real TreadMill; every sweep result compared as a set, emptiness predicates compared at six points per cycle, conservation over the history",
     level_text="Histories consistent with the LOS protocol against a four-set model: each sweep returns exactly the unmarked objects of the collected sets once; marked objects are never swept; added == swept overall.",
     note="Object references are synthetic addresses (the treadmill only hashes them).",
     design_ref="2/C36", miri=True, crash_is_violation=True, crash_sig=lambda shard, res: "crash:%s:%s" % (shard["variant"], _plan_of(shard) if shard["pkg"] == "gcsim" else "units"),
     shards=lambda tier, seed: [dict(pkg="units", variant="A", args=["C36"])] + ([miri_shard("C36", 1)] if tier == "thorough" else []) + [
         gc_shard(v, plan, _rng(seed, 36 + i), 12000 if tier == "quick" else 40000, flags=["weak"], mutators=_rng(seed, 360 + i).choice([1, 2]), heap=64, stress=200000)
         for i, (v, plan) in enumerate([("A", "SemiSpace"), ("A", "Immix"), ("A", "GenImmix"), ("A", "GenCopy"), ("A", "StickyImmix"), ("A", "MarkSweep"), ("B", "Compressor"), ("C", "MarkCompact")] * (1 if tier == "quick" else 4))],
     floors={"quick": {"evaluations": 40000, "gc_full": 15000, "gc_nursery": 20000, "copy_mature": 300000, "copy_nursery": 200000, "cycles_with_address_reuse": 10000, "histories_concurrent": 100,
                       "gcsim_reachable_large_objects_checked_after_gc": 1500, "gcsim_full_pauses_with_large_objects": 150, "gcsim_nursery_pauses_with_large_objects": 20}})


# =================================================================================================
# gcsim checks: generated mutator programs against a real MMTk instance, one short process each
# =================================================================================================

PLANS_A = ["SemiSpace", "GenCopy", "GenImmix", "Immix", "StickyImmix", "MarkSweep", "MarkCompact",
           "ConcurrentImmix", "PageProtect", "NoGC"]
PLANS_B = ["SemiSpace", "GenCopy", "GenImmix", "Immix", "StickyImmix", "MarkSweep", "MarkCompact",
           "Compressor", "ConcurrentImmix", "PageProtect"]
PLANS_C = ["SemiSpace", "MarkCompact", "PageProtect", "NoGC"]
# variant D (marksweep_as_nonmoving): the plans whose collections work with a mark-sweep non-moving space
PLANS_D = ["SemiSpace", "Immix", "MarkSweep", "ConcurrentImmix", "PageProtect"]
GENERATIONAL = ["GenCopy", "GenImmix", "StickyImmix"]
COLLECTING = [p for p in PLANS_A if p != "NoGC"]


def _rng(seed, salt):
    import random
    return random.Random(seed * 1000003 + salt)


def gc_shard(variant, plan, rnd, ops, flags=(), mutators=None, workers=None, heap=None, stress=None,
             scenario=None, extra=(), finding=None):
    mut = mutators if mutators is not None else rnd.choice([1, 1, 2, 4])
    wrk = workers if workers is not None else rnd.choice([1, 2, 4, 8])
    if heap is None:
        heap = 4096 if plan == "NoGC" else rnd.choice([32, 64, 128])
    if stress is None:
        stress = rnd.choice([65536, 200000, 1000000])
    args = ["--plan", plan, "--heap-mb", heap, "--ops", ops, "--stress", stress, "--workers", wrk,
            "--mutators", mut, "--watchdog", 120]
    if scenario:
        args += ["--scenario", scenario]
    for f in flags:
        args.append("--" + f)
    args += list(extra)
    d = dict(pkg="gcsim", variant=variant, args=args, timeout=600)
    if finding:
        d["finding"] = finding
        # a configuration that is known to corrupt the heap may also hang: do not wait long
        i = args.index("--watchdog")
        args[i + 1] = 40
    return d


def std_gc_shards(tier, seed, salt, flags, plans_filter=None, single_mutator=False, variants="ABC",
                  ops_quick=12000, ops_thorough=40000, reps_quick=1, reps_thorough=6, scenario=None, extra=()):
    rnd = _rng(seed, salt)
    shards = []
    reps = reps_quick if tier == "quick" else reps_thorough
    ops = ops_quick if tier == "quick" else ops_thorough
    table = [("A", PLANS_A), ("B", PLANS_B), ("C", PLANS_C), ("D", PLANS_D)]
    for variant, plans in table:
        if variant not in variants:
            continue
        for plan in plans:
            if plans_filter and plan not in plans_filter:
                continue
            n = reps
            # quick tier: variant A gets every plan once; B and C rotate through their plans
            if tier == "quick" and variant != "A":
                if plan not in ("Compressor",) and rnd.random() < 0.5:
                    continue
            for _ in range(n):
                shards.append(gc_shard(variant, plan, rnd, ops, flags=flags,
                                       mutators=1 if single_mutator else None, scenario=scenario, extra=extra))
    return shards


FINDING_SHARDS = {
    # known findings that need a whole configuration to reproduce (see known_findings.json)
    "C01": [
        ("A", "MarkCompact", "config:markcompact+nonmoving-immix-space"),
        ("B", "Compressor", "config:compressor+references-from-immortal-or-nonmoving"),
        ("D", "StickyImmix", "config:marksweep_as_nonmoving+stickyimmix"),
        ("D", "MarkCompact", "config:marksweep_as_nonmoving+markcompact"),
        ("D", "GenCopy", "config:marksweep_as_nonmoving+generational"),
    ],
    "C12": [
        ("A", "ConcurrentImmix", "config:concurrentimmix+nonmoving-immix-space"),
    ],
    "C03": [
        # (the program that exposed it, pinned: a single mutator, so the run is deterministic)
        ("A", "PageProtect", "config:pageprotect+discontiguous-layout:multi-chunk-grant-not-unprotected",
         dict(ops=12000, heap=64, stress=1000000, workers=2, extra=["--layout", "map32", "--resolve", "--fixed-seed", "668606818594875984"])),
    ],
    "C05": [
        ("A", "GenCopy", "config:generational+nonmoving-immix-space"),
    ],
}


def c03_map32_shards(tier, seed):
    """The discontiguous layout: spaces give chunks back to the VM map at GCs and acquire them again,
    so an allocation can be the first one in a chunk that held objects before (zeroing, alignment)."""
    rnd = _rng(seed, 303)
    out = []
    for plan in ["SemiSpace", "GenCopy", "Immix", "MarkSweep", "MarkCompact", "StickyImmix"]:
        for _ in range(1 if tier == "quick" else 4):
            out.append(gc_shard("A", plan, rnd, 12000 if tier == "quick" else 40000, flags=[], mutators=rnd.choice([1, 2]), heap=rnd.choice([32, 64]), extra=["--layout", "map32"]))
    return out


def finding_shards(pid, seed):
    rnd = _rng(seed, 77)
    out = []
    for entry in FINDING_SHARDS.get(pid, []):
        variant, plan, sig = entry[:3]
        kw = dict(ops=6000, mutators=1, workers=4, heap=128, stress=200000, extra=[])
        if len(entry) > 3:
            kw.update(entry[3])
        out.append(gc_shard(variant, plan, rnd, kw["ops"], mutators=kw["mutators"], workers=kw["workers"], heap=kw["heap"], stress=kw["stress"],
                            scenario="finding-" + plan.lower(), finding=sig, extra=kw["extra"]))
    return out


def gcsim(pid, title, rule, technique, level_text, note, design_ref, shards, floors=None, **kw):
    CHECKS[pid] = dict(title=title, rule=rule, technique=technique, level="exploration",
                       level_text=level_text, level_note=note, design_ref=design_ref,
                       floors=floors or {}, shards=shards, exhaustive=False,
                       assumptions=["the VerifVM binding and its shadow heap (harness/vmbind) are the trusted oracle",
                                    "object graph operations are serialised by one shadow lock; allocation itself runs concurrently"],
                       engine="gcsim", parallel=8, crash_is_violation=True,
                       crash_sig=lambda shard, res: "crash:%s:%s" % (shard["variant"], _plan_of(shard)), **kw)


def _plan_of(shard):
    a = [str(x) for x in shard["args"]]
    return a[a.index("--plan") + 1] if "--plan" in a else "?"


GC_RULE = ("PRNG-generated multi-threaded mutator programs (allocate with boundary-heavy sizes/alignments/semantics, write fields through the barriers, "
           "load, drop/share roots, build lists/trees, array copies, rebind mutators, user GCs, polls) against a real MMTk instance; one short process per "
           "(build variant A/B/C, plan, heap size, stress factor, #workers 1-8, #mutators 1-4, seed); ")

gcsim("C01", "Collection preserves every reachable object and the reachable graph",
      rule=GC_RULE + "after EVERY pause the whole shadow-reachable graph is compared with the real heap (id, size, payload, every slot, id<->address bijection, root slots); "
           "a case = one pause; non-trivial = objects verified; distinct = (GC kind, live-set size class, moved-count class)",
      technique="shadow-heap oracle at quiescent points over real GCs driven by generated programs (runtime monitoring through a real VM binding)",
      level_text="Every pause of every generated program is followed by a full comparison of the real heap with the shadow heap; objects copied are tracked through ObjectModel::copy/copy_to; "
                 "old copies are tombstoned so stale slots are visible; crashes inside mmtk during a legal program count as violations. Exploration over programs, plans, feature sets and schedules - not exhaustive.",
      note="Finds what the produced executions exhibit. NonMoving allocations are left out for (MarkCompact, ConcurrentImmix) and Immortal/NonMoving for Compressor except in the known-finding shards.",
      design_ref="2/C01",
      shards=lambda tier, seed: std_gc_shards(tier, seed, 1, ["weak", "finalizers", "ephemerons", "pin-roots"]) + finding_shards("C01", seed),
      floors={"quick": {"pauses": 300, "objects_verified": 50000, "objects_moved": 5000, "processes_plan_SemiSpace": 1,
                        "processes_plan_GenCopy": 1, "processes_plan_GenImmix": 1, "processes_plan_Immix": 1, "processes_plan_StickyImmix": 1,
                        "processes_plan_MarkSweep": 1, "processes_plan_MarkCompact": 1, "processes_plan_Compressor": 1,
                        "processes_plan_ConcurrentImmix": 1, "processes_plan_PageProtect": 1, "processes_plan_NoGC": 1}})

gcsim("C02", "New allocations never overlap live objects",
      rule=GC_RULE + "every allocation result is looked up in an interval map of all objects that are reachable or were allocated since the last completed pause; "
           "case = one allocation",
      technique="interval-map monitor on every allocation return (shadow heap), across GCs, several mutators allocating concurrently",
      level_text="Each allocation of each generated program is checked for overlap with every live or recently allocated object; garbage leaves the map only when a GC completes.",
      note="Dead objects are removed from the map at pause end, so reuse of dead space never alarms.",
      design_ref="2/C02",
      shards=lambda tier, seed: std_gc_shards(tier, seed, 2, ["weak", "finalizers"]),
      floors={"quick": {"allocations_checked": 150000, "processes_plan_MarkSweep": 1, "processes_plan_Immix": 1, "processes_plan_SemiSpace": 1}})

gcsim("C03", "Allocation results honour size, alignment, offset, zeroing and semantics",
      rule=GC_RULE + "every allocation result is checked before the header is written: non-null, (addr+offset) % align == 0, [addr, addr+size) mapped MMTk memory, all bytes zero "
           "(memory dirtied by earlier objects and freed by GCs is reused constantly); sizes concentrate on boundaries (min object, line +-8, mark-sweep size classes +-8, page multiples +-8, "
           "the non-LOS limit, LOS multi-page), aligns 8..MAX_ALIGNMENT, offsets multiples of 8; six further shards run under the discontiguous layout (--layout map32), where spaces give chunks back at GCs and "
           "re-acquire them, so allocations land in chunks that are new to the space but held objects before; case = one allocation; distinct = (size class, align, offset, semantics)",
      technique="assertion monitor on every allocation return of generated programs (runtime monitoring through a real VM binding); non-termination observed as a crash/watchdog of the process",
      level_text="Every alloc() of every generated program is checked for alignment, mapped-ness and zeroing before use; a call that never returns shows up as a stack overflow / watchdog of that process.",
      note="Which space an address belongs to is checked by C31; termination is a bounded observation (watchdog), not a proof.",
      design_ref="2/C03",
      shards=lambda tier, seed: std_gc_shards(tier, seed, 3, []) + c03_map32_shards(tier, seed) + finding_shards("C03", seed),
      floors={"quick": {"allocations_checked": 150000, "processes_plan_NoGC": 1, "processes_plan_MarkSweep": 1, "processes_plan_Immix": 1}})

gcsim("C04", "Non-moving, immortal and pinned objects never move; immortal ones never die",
      rule=GC_RULE + "every ObjectModel::copy/copy_to is logged; a move of an object allocated with Immortal/Los/NonMoving semantics, currently pinned, or referenced by a pinning root is a violation; "
           "pin/unpin/is_pinned results are compared with a shadow pin state; unreachable objects of never-collected spaces (and everything under NoGC) are re-verified by address after every pause; "
           "case = one pause or pin op",
      technique="move-log monitor at the binding boundary + by-address integrity check of dropped immortal objects at quiescent points",
      level_text="All object moves of all pauses are attributed to shadow objects and checked against their semantics/pin state; dropped immortal objects are kept and re-verified forever.",
      note="pin_object is only exercised where the default space supports it (Immix, StickyImmix, ConcurrentImmix).",
      design_ref="2/C04",
      shards=lambda tier, seed: std_gc_shards(tier, seed, 4, ["pin-roots"], plans_filter=["Immix", "StickyImmix", "GenImmix", "ConcurrentImmix", "SemiSpace", "GenCopy", "MarkCompact", "Compressor", "NoGC", "MarkSweep"]),
      floors={"quick": {"pauses": 200, "immortal_dead_checked": 20000, "pins": 50, "unpins": 30, "processes_plan_NoGC": 1}})

gcsim("C05", "Generational remembered sets are sound",
      rule=GC_RULE + "generational plans only; every program plants the shape 'object that survived a pause holds the only reference to a fresh object' through the write barrier or the region-copy barrier, "
           "then provokes collections; at each nursery pause the objects whose only strong path goes through an old object are verified like in C01 and counted; case = one such object. "
           "The shadow heap's lock serialises the mutators' write barriers, so the remembering step itself is also raced outside gcsim: the real ObjectBarrier (object_reference_write_slow/_post with a counting BarrierSemantics) is called by 2-8 "
           "threads on the same old object while neighbour threads keep changing the other bits of the same log byte (side and in-header log bits, all bit positions): exactly one caller must remember the object and it must end up logged "
           "(the units C18 monitor restricted to log_object, reporting under C05)",
      technique="shadow-heap oracle restricted to remembered-set-only survivors of nursery GCs + exactly-once checker on racing real write-barrier calls",
      level_text="Objects that can only have survived a nursery GC through the remembered set are identified in the shadow graph and verified (alive, intact, slot updated) after the pause.",
      note="Needs nursery GCs: GenCopy, GenImmix, StickyImmix in variants A and B (side log bit).",
      design_ref="2/C05",
      shards=lambda tier, seed: std_gc_shards(tier, seed, 5, ["weak"], plans_filter=GENERATIONAL, variants="AB", reps_quick=2) + finding_shards("C05", seed)
      + [dict(pkg="units", variant="A", args=["C18", "--only", "log_object", "--as", "C05"])],
      floors={"quick": {"remset_only_verified": 300, "nursery_pauses": 100, "full_pauses": 10, "old_to_young_stores": 500, "array_copies": 100,
                        "objects_raced_b_with_neighbours": 10000}})

gcsim("C06", "Soft/weak/phantom references and finalizers follow their semantics",
      rule=GC_RULE + "programs register weak/soft/phantom reference objects (referent set at construction) and finalizers, and withdraw registrations of objects the VM still reaches with get_finalizers_for (exactly the outstanding registrations must come back; "
           "the candidates registered since the last GC must still be scanned by the next nursery GC); clear_referent / set_referent / enqueue_references / get_finalized_object are logged; "
           "every pause: a cleared reference whose referent was strongly reachable, cleared-but-not-enqueued, enqueued twice, a finalizable returned twice / while strongly reachable at every pause since registration, "
           "stale address; after forced exhaustive single-mutator GCs additionally the reference model (certainly-live / possibly-live sets S1, S2) decides what MUST have been cleared / made ready; case = one processed reference or finalizable",
      technique="executable reference model of the reference/finalizer semantics over the shadow graph + exactly-once checker on the recorded callback history",
      level_text="Safety half after every pause, completeness half only where liveness is exact (forced exhaustive full-heap GC). Retained referents and finalizable closures are verified by the C01 oracle.",
      note="Soft references reached only through other soft referents are order dependent in MMTk and not judged. Referents are never immortal objects.",
      design_ref="2/C06",
      shards=lambda tier, seed: std_gc_shards(tier, seed, 6, ["weak", "finalizers"], plans_filter=COLLECTING + ["Compressor"]),
      floors={"quick": {"references_cleared": 500, "references_enqueued": 100, "references_must_clear_checked": 30, "finalizers_registered": 200,
                        "finalizables_popped_at_exact_gc": 20, "exact_pauses": 50}})

gcsim("C07", "After an exhaustive GC, MMTk reports exactly the surviving objects",
      rule=GC_RULE + "vo_bit variants (A, B), single mutator; after each forced exhaustive GC (mutators still stopped) MMTK::enumerate_objects is compared as a multiset with the survivors "
           "(shadow-live objects incl. finalizer-resurrected ones + every object of never-collected spaces) and is_mmtk_object is probed at every object that died in that GC; case = one enumerated or probed object",
      technique="set-equality monitor between enumerate_objects / is_mmtk_object and the shadow heap at quiescent points after exhaustive GCs",
      level_text="Exact comparison only where liveness is exact; live objects are additionally probed with is_mmtk_object after every pause.",
      note="Only forced exhaustive full-heap GCs of single-mutator programs are judged for 'dead => not reported'.",
      design_ref="2/C07",
      shards=lambda tier, seed: std_gc_shards(tier, seed, 7, ["weak", "finalizers"], single_mutator=True, variants="AB", plans_filter=COLLECTING + ["Compressor"]),
      floors={"quick": {"exact_pauses": 100, "objects_enumerated": 30000, "dead_objects_probed": 5000}})

gcsim("C13", "VM weak-reference processing rounds run until the closure is complete",
      rule=GC_RULE + "the binding keeps an ephemeron table (incl. chains key_i reachable only through value_{i-1}, needing i rounds); inside every process_weak_refs call a sample of the strong closure and of the closure of "
           "everything retained in earlier rounds must answer is_reachable(); forward_weak_refs must be called only for plans with a forwarding pass; table addresses must be current after the pause; case = one callback invocation or probe",
      technique="in-callback probes + history checker on process_weak_refs/forward_weak_refs invocations",
      level_text="Closure completeness is probed from inside the VM callback with is_reachable() on objects the shadow graph knows must have been reached.",
      note="Objects of untraced spaces in nursery GCs (immortal/non-moving) are not probed: is_reachable() is not a closure-completeness proxy there.",
      design_ref="2/C13",
      shards=lambda tier, seed: std_gc_shards(tier, seed, 13, ["ephemerons"], plans_filter=COLLECTING + ["Compressor"]),
      floors={"quick": {"process_weak_refs_calls": 300, "reachability_probes": 50000, "values_retained": 100, "max_rounds_in_one_gc": 3, "ephemeron_chains": 50}})

unit("C29", "Discontiguous chunk allocation keeps the region map consistent",
     rule="600 histories (thorough 15000) on a private Map32 under the compressed-pointer style layout, following the CommonPageResource protocol: create_freelist for 1-5 spaces, contiguous neighbour spaces, "
          "finalize_static_space_map, allocate_contiguous_chunks, free_contiguous_chunks at head/middle/tail/only positions, free_all_chunks, final whole-range allocation; after EVERY operation: descriptors of all chunks in the heap range +-2, "
          "region chains per space, region sizes, available-chunk count; distinct = (op kind, position, spaces, region-count class)",
     technique="reference-model monitor: {chunk -> owner} + per-space ordered region list vs the real Map32 through its VMMap interface",
     level_text="Every operation of long allocate/free histories is followed by a full comparison of the chunk descriptor map, the per-space region chains and the available-chunk count with the model; a CPU-time watchdog turns a non-returning call into a violation.",
     note="A NoGC MMTK instance is built only to initialise SFT_MAP (free_contiguous_chunks clears SFT entries). Placement policy is not checked.",
     design_ref="2/C29",
     floors={"quick": {"evaluations": 60000, "op_free_head": 2000, "op_free_middle": 2000, "op_free_tail": 2000, "op_free_only": 2000, "op_free_all": 2000}})

unit("C30", "Mmap chunk states only move Unmapped to Quarantined to Mapped",
     rule="150 histories (thorough 3000) on a private ChunkStateMmapper over a 98 GiB PROT_NONE reservation modelling 8704 chunks around two 32 GiB slab boundaries of the two-level storage: legal quarantine / ensure_mapped / mark_as_mapped "
          "calls over aligned and unaligned ranges (in one slab, spanning one or two boundaries, whole slab); after each op the recorded state of ALL chunks + 4 outside, monotonicity, is_mapped_address, and read-write probes of mapped chunks; "
          "distinct = (op, range placement class, alignment, prior-state mix); concurrent histories (120, thorough 1500): 4 real threads call ensure_mapped over random overlapping sub-ranges of a 40-chunk region around a slab boundary "
          "whose chunks start as a mix of Unmapped and Quarantined on a fresh mmapper; when a call returns every chunk of its range must be recorded Mapped, is_mapped_address true and writable, a per-thread token left in each "
          "covered chunk must survive (a chunk mapped twice loses it or fails with EEXIST), and the quiescent states must be Mapped exactly for the covered chunks",
     technique="reference-model monitor: per-chunk state model vs the real mmapper (state via verif hook, mapped-ness via pipe read/write probes); token-survival and forward-only state checks under real threads",
     level_text="Every operation is followed by a comparison of every modelled chunk's recorded state with the model, plus OS-level readability/writability probes.",
     note="Only documented-legal call sequences (no re-quarantine of quarantined chunks; mark_as_mapped only on memory the harness mapped).",
     design_ref="2/C30",
     floors={"quick": {"evaluations": 5000, "range_spans_one_boundary": 700, "range_spans_two_boundaries": 40, "op_quarantine": 400, "op_ensure_mapped": 400, "op_mark_as_mapped": 400, "rw_probed_chunks": 5000,
                       "concurrent_histories": 100, "concurrent_ensure_mapped_calls": 4000, "concurrent_tokens_rechecked": 50000}})

unit("C37", "Compressor forwarding addresses pack live objects in order",
     rule="~150k object layouts (thorough ~3M) in three 1 MiB regions whose data is NOT mapped (any read of object memory would fault): dense, sparse, block-straddling, boundary (object starting at a block start / ending at a block end / "
          "first word = last word of a block / two-word object across a boundary), big, single object, empty, nothing-live, full-to-cursor layouts; mark bitmap zeroed as CompressorSpace::prepare does, offset vector stale/garbage/zero; "
          "every live object: forward == region start + sum of sizes of live objects before it; scan_marked_objects == live set in order; distinct = (generator, boundary class, block-open state, size class)",
     technique="reference-model monitor: prefix-sum model vs the real ForwardingMetadata (mark bits, offset vector, Transducer) through the verif hook",
     level_text="The closed-form forwarding address is compared for every live object of every generated layout, including all block-boundary alignments of object starts and ends.",
     note="End-to-end Compressor GCs are additionally observed in gcsim variant B (C01).",
     design_ref="2/C37",
     floors={"quick": {"evaluations": 3000000, "objects_straddling_block": 500000, "objects_starting_at_block_start": 200000, "objects_ending_at_block_end": 200000,
                       "objects_last_word_at_block_start": 200000, "objects_first_word_at_block_end": 200000, "layouts_cursor_at_region_end": 400}})


def c38_shards(tier, seed):
    rnd = _rng(seed, 38)
    shards = [dict(pkg="units", variant="A", args=["C38"])]
    plans = ["SemiSpace", "GenCopy", "GenImmix", "Immix", "StickyImmix", "MarkSweep", "MarkCompact", "ConcurrentImmix", "PageProtect"]
    reps = 1 if tier == "quick" else 5
    for plan in plans:
        for _ in range(reps):
            lo = rnd.choice([2, 3, 4])
            hi = rnd.choice([16, 24, 64, 128])
            shards.append(gc_shard("A", plan, rnd, 30000 if tier == "quick" else 80000, stress=0,
                                   extra=["--dyn-heap", "%d,%d" % (lo, hi), "--live-kb", rnd.choice([6000, 20000, 60000])]))
    for plan in ["SemiSpace", "Immix"]:
        shards.append(gc_shard("A", plan, rnd, 12000))
    return shards


gcsim("C38", "Dynamic heap size stays within its bounds",
      rule="(i) live: generated programs under DynamicHeapSize:min,max (min 2-4 MiB so that the heap must grow, max 16-128 MiB, live-set budgets below and above max) on every collecting plan; memory_manager::total_bytes() sampled at every pause end "
           "and every 128 mutator operations must lie in [min, max] (page rounded); with FixedHeapSize it must never change. (ii) unit: the real MemBalancerTrigger::compute_new_heap_limit stepped with 300k histories (thorough 30M) of GC statistics "
           "(times in {0} u [1e-9, 1e6] s, pages <= 2^35, zeros, min == max, pending pages) plus a corner grid: the result must lie in [min, max] after every step; distinct = (plan / formula-vs-fallback branch, result at min / interior / at max, heap size in MiB)",
      technique="assertion monitor on the reported heap size at quiescent points of live runs + reference-bound monitor on the real MemBalancer driven with synthetic statistics through a verif hook",
      level_text="Heap-size bounds are asserted wherever the binding can observe them in live runs, and the clamp is exercised directly over the statistics domain.",
      note="A live run whose heap never leaves the minimum observes little; the floors require interior and boundary samples.",
      design_ref="2/C38", shards=c38_shards,
      floors={"quick": {"dynamic_samples": 2000, "samples_interior": 500, "fixed_samples": 100, "branch_fallback": 300000, "result_interior": 150000, "result_at_max": 100000, "result_at_min": 50000}})


def c12_shards(tier, seed):
    rnd = _rng(seed, 12)
    shards = []
    reps = 3 if tier == "quick" else 16
    for variant in ("A", "B"):
        for i in range(reps):
            extra = []
            if i % 4 == 3:
                extra = ["--opt", "concurrent_immix_disable_concurrent_marking=true"]
            shards.append(gc_shard(variant, "ConcurrentImmix", rnd, 60000 if tier == "quick" else 150000,
                                   flags=["weak", "failpoints"] + (["chaos"] if i % 2 else []),
                                   mutators=rnd.choice([1, 2, 4]), heap=rnd.choice([16, 24, 32]), stress=0,
                                   scenario="nogcops", extra=extra + ["--live-kb", rnd.choice([3000, 6000])]))
    return shards + finding_shards("C12", seed)


gcsim("C12", "Concurrent Immix preserves the snapshot-at-the-beginning",
      rule="ConcurrentImmix (variants A, B) programs without user GCs on small heaps so that concurrent marking cycles run while 1-4 mutators keep allocating, overwriting and deleting references through the SATB pre-write barrier "
           "(and loading weak referents through load_weak_reference); at the InitialMark pause the shadow-reachable id set is snapshotted, every object allocated until the FinalMark pause is added; after FinalMark every id of that set "
           "that is no longer reachable must still be intact by address (header, payload, slots, and is_mmtk_object); failpoints delay workers after polling packets and before parking; case = one snapshot object; non-trivial = unreachable at FinalMark",
      technique="snapshot monitor over InitialMark..FinalMark cycles of live runs with real mutator/marker concurrency (shadow-heap oracle, by-address integrity of snapshot objects)",
      level_text="The classic lost-object scenario is produced constantly by the generated programs (the only path to a snapshot object is deleted while marking runs); whatever interleavings the OS scheduler and the failpoints produce are observed.",
      note="Objects the SATB barrier cannot iterate (scan_object_and_trace_edges objects) and NonMoving objects (known finding) are not used under ConcurrentImmix.",
      design_ref="2/C12", shards=c12_shards,
      floors={"quick": {"initial_mark_pauses": 20, "final_mark_pauses": 20, "snapshot_objects": 5000, "snapshot_objects_unreachable_at_final_mark_verified": 500, "objects_allocated_during_concurrent_marking": 3000}})


def sched_shards(tier, seed, salt, scenario=None, plans=None):
    """Event-log shards: every plan, worker counts 1..8, failpoints (delays after poll / before park /
    at notify) on every shard, chaos (spurious wakeups, yields) on every other shard."""
    rnd = _rng(seed, salt)
    shards = []
    reps = 1 if tier == "quick" else 6
    ops = 14000 if tier == "quick" else 40000
    i = 0
    for variant, vplans in (("A", PLANS_A), ("B", ["Compressor", "StickyImmix", "GenImmix"])):
        for plan in vplans:
            if plan == "NoGC" or (plans and plan not in plans):
                continue
            for _ in range(reps):
                i += 1
                flags = ["events", "failpoints"] + (["chaos"] if i % 2 else []) + (["weak", "finalizers"] if i % 3 == 0 else [])
                shards.append(gc_shard(variant, plan, rnd, ops, flags=flags, scenario=scenario,
                                       workers=rnd.choice([1, 2, 3, 4, 8]), mutators=rnd.choice([1, 2, 4]),
                                       heap=rnd.choice([32, 64]), stress=rnd.choice([100000, 200000, 400000])))
    return shards


SCHED_RULE = ("gcsim programs (all collecting plans, variant A + Compressor/StickyImmix/GenImmix of variant B; 1-8 GC workers, 1-4 mutators; allocation-stress GCs every 100-400 KB, user GC requests, "
              "gc_poll, and user work-packet fan-out trees injected into the always-open and the stop-the-world buckets) with the mmtk_verif event log enabled: every scheduler transition "
              "(goal request/start/finish, worker park/unpark/last-parked decision, bucket open/close, packet add/start/end, designated work, local-queue flush, stop/resume/scan callbacks) is recorded in a "
              "lock-free ring with a global sequence number and checked online by a monitor thread; failpoints delay workers after polling a packet, before parking and at notify; chaos = spurious wakeups; ")

gcsim("C11", "Stop-the-world work only runs while mutators are stopped",
      rule=SCHED_RULE + "C11 automaton: within each GC stop_all_mutators is entered and returns exactly once, before the first stop-the-world bucket opens and before any stop-the-world packet, object scan or "
           "copy starts; every bound mutator and the VM-specific roots are scanned once per root-scanning round; resume_mutators is called once, after every stop-the-world packet has finished and none is pending; "
           "block_for_gc/handle_user_collection_request return only after a GC ended; the binding itself asserts no mutator runs an operation between stop and resume; "
           "case = one stop-the-world packet start or one GC; distinct = (#mutators, #workers, root-scanning rounds, log2 #packets of the GC)",
      technique="online trace-automaton monitor over the scheduler/binding event log of live GCs (ordering: X never before Y / exactly-once per GC)",
      level_text="Every stop-the-world packet start, object scan, first copy and binding callback of every GC in the run is ordered against stop_all_mutators / resume_mutators by global sequence number.",
      note="Concurrent (non-STW) packets of ConcurrentImmix are identified by their bucket and are exempt, as the property says.",
      design_ref="2/C11",
      shards=lambda tier, seed: sched_shards(tier, seed, 11),
      floors={"quick": {"gcs_checked": 1500, "evaluations": 200000, "user_gc_requests": 300}})

gcsim("C14", "GC requests are neither lost nor deadlocked",
      rule=SCHED_RULE + "C14 automaton: every goal request is followed by a goal start and finish (bounded: the run ends with no pending request and a watchdog with a deadlock predicate - all workers parked, "
           "a goal requested or STW packets pending, no progress for 20 s - turns a hang into a violation with the parked/pending state as witness); exactly one worker makes the last-parked decision per quiescence; "
           "a worker never parks while an open bucket holds packets it could run; coalesced requests are allowed; "
           "case = one last-parked decision; distinct = (goal state, #parked, open-bucket vector, decision) states seen",
      technique="online trace-automaton monitor over the WorkerMonitor/WorkerGoals event log + bounded-progress watchdog (liveness restated as bounded progress)",
      level_text="All park/unpark/last-parked/goal transitions the runs produce are checked; liveness only as bounded progress: every request made during the run is served before the run ends.",
      note="'Eventually' is decided as 'within the watchdog budget with all threads idle', which is the strongest runtime monitoring can give.",
      design_ref="2/C14",
      shards=lambda tier, seed: sched_shards(tier, seed, 14) + sched_shards(tier, seed, 141, scenario="fork", plans=["SemiSpace", "GenImmix", "Immix", "MarkSweep", "ConcurrentImmix"]),
      floors={"quick": {"gc_requests": 1500, "gc_starts": 1500, "last_parked_wakeall": 5000, "last_parked_parkself": 5000, "distinct_scheduler_states": 150, "user_gc_round_trips": 300}})

gcsim("C15", "Work buckets open in stage order and every packet runs exactly once",
      rule=SCHED_RULE + "C15 automaton: each packet id is added once, started once, ended once, in that order and within the GC it was added for (stop-the-world buckets); a packet of a stop-the-world bucket never starts "
           "while its bucket is closed; a bucket opens only when every earlier stop-the-world bucket is open and drained and no worker is running a packet of an earlier bucket (designated work included); at GC end "
           "all stop-the-world buckets are closed and empty; case = one sequential bucket opening; distinct = (stage, #running, pending class)",
      technique="online exactly-once / ordering checker over unique packet ids in the event log",
      level_text="Unique packet ids make the history unambiguous: add/start/end are matched per id; bucket-open events are checked against the recorded contents and running set of every earlier bucket.",
      note="User-injected fan-out packets add children to the same or later stages, as plan packets do.",
      design_ref="2/C15",
      shards=lambda tier, seed: sched_shards(tier, seed, 15),
      floors={"quick": {"gcs_checked": 1500, "sequential_bucket_opens_checked": 20000, "packets_started": 200000, "user_packet_trees_injected": 500}})

gcsim("C16", "Fork support: workers surrender and respawn cleanly",
      rule=SCHED_RULE + "scenario fork: mutator 0 repeatedly calls prepare_to_fork, waits until every GC thread returned its GCWorker, then after_fork, while other mutators keep requesting GCs; C16 automaton: every worker surrenders exactly once per "
           "StopForFork goal and only when no GC is in progress, no packet is executing and no stop-the-world packet is pending; after_fork spawns exactly the configured number of workers, each with a distinct ordinal; GCs requested "
           "before/while forking are served after respawn; finally the run ends; case = one surrender; distinct = (#workers, pending-request?, round)",
      technique="online trace-automaton monitor over the worker lifecycle events of live prepare_to_fork/after_fork round trips",
      level_text="Dozens of fork round trips per process, racing with GC requests from other mutators, are checked for clean surrender and complete respawn; GCs after respawn are checked by the C01 oracle.",
      note="No real fork(2) is performed (a forked multi-threaded child cannot run the harness); the property's protocol is prepare_to_fork/after_fork.",
      design_ref="2/C16",
      shards=lambda tier, seed: sched_shards(tier, seed, 16, scenario="fork", plans=["SemiSpace", "GenImmix", "Immix", "MarkSweep", "MarkCompact", "ConcurrentImmix", "StickyImmix", "Compressor"]),
      floors={"quick": {"fork_round_trips": 150, "surrenders": 400, "workers_spawned": 400, "exit_requested_while_gc_pending_or_running": 5}})


def c08_shards(tier, seed):
    return (std_gc_shards(tier, seed, 8, ["lookups", "weak", "finalizers"], single_mutator=True, variants="AB", plans_filter=COLLECTING + ["Compressor"])
            + std_gc_shards(tier, seed, 80, ["lookups"], variants="AB", plans_filter=["Immix", "MarkSweep", "GenCopy", "NoGC", "Compressor", "ConcurrentImmix"]))


gcsim("C08", "Interior-pointer and conservative lookups resolve to the right object",
      rule=GC_RULE + "vo_bit variants (A: reference = start + 8, B: reference = start); probes of memory_manager::is_mmtk_object and find_object_from_internal_pointer (i) at every pause end (world stopped) on a sample of "
           "live objects incl. all-semantics, multi-page large objects and unreachable immortal objects, (ii) from mutators on objects they hold, possibly allocated a moment ago, (iii) after forced exhaustive GCs of single-mutator "
           "programs - where the shadow heap knows every valid object - on gaps, one-past-the-end addresses, object starts below the reference, page and chunk boundaries, and objects that died in that GC, (iv) on addresses outside "
           "the heap (low addresses, stack, static, malloc, heap edges, 2^47+-8, 2^63, usize::MAX&~7, the side-metadata range). Expected: reference -> Some(itself); interior address -> is_mmtk_object None; "
           "find(p, n) = Some(o) for n in {d+8, d+4096, d+1MiB} and None for n in {d-8, 8} where d = p - o.ref (n == d is never probed: property text and API doc differ at equality); exact state: the model answer for every probed address; "
           "a panic in either function is a violation; case = one query; distinct = (exact?, large objects?, probe-count classes)",
      technique="reference-model monitor (shadow-heap interval map) on the two lookup functions at quiescent points of live runs; panics trapped and reported",
      level_text="Each query's answer is compared with the shadow heap; 'None expected' queries on gaps and freed memory only where liveness is exact. Exploration over generated heaps, not all addresses.",
      note="Stale VO bits of dead objects between non-exhaustive GCs are legitimate and never judged.",
      design_ref="2/C08", shards=c08_shards,
      floors={"quick": {"is_mmtk_object_on_valid_refs": 50000, "is_mmtk_object_on_interior_addresses": 200000, "find_expected_some": 500000, "find_expected_none_short_window": 200000,
                        "find_on_los_objects": 50000, "exact_gap_and_boundary_probes": 50000, "outside_heap_probes": 5000, "probe_batches_exact": 100}})


def c09_shards(tier, seed):
    rnd = _rng(seed, 9)
    shards = []
    cycles = 45 if tier == "quick" else 700
    table = [("A", COLLECTING), ("B", ["Compressor", "StickyImmix", "Immix", "MarkSweep", "GenImmix"]), ("C", ["SemiSpace", "MarkCompact"]), ("D", PLANS_D)]
    for variant, plans in table:
        for plan in plans:
            reps = 1 if tier == "quick" else 2
            for _ in range(reps):
                fill = rnd.choice([20, 30, 40]) if plan not in ("GenCopy", "GenImmix") else rnd.choice([20, 25, 30])
                n = cycles if plan != "PageProtect" else max(12, cycles // 4)  # one mmap/mprotect per object: slow
                # every other shard also has allocation-triggered (stress) GCs inside the fill phase
                stress = rnd.choice([0, 1 << 20]) if plan != "PageProtect" else 0
                extra = ["--fill-pct", fill]
                if (variant, plan) == ("D", "ConcurrentImmix"):
                    extra += ["--disable", "nonmoving"]  # known finding, see the finding shard below
                shards.append(gc_shard(variant, plan, rnd, n, mutators=1, heap=rnd.choice([16, 24, 32]), stress=stress,
                                       scenario="cycles", extra=extra))
    # the discontiguous layout (Map32): page resources grow chunk by chunk, free runs must coalesce back into whole
    # chunks for the chunks to be returned, and large requests need several adjacent chunks
    rnd32 = _rng(seed, 909)
    for plan in ["SemiSpace", "Immix", "MarkSweep", "MarkCompact", "GenImmix"]:
        for _ in range(1 if tier == "quick" else 2):
            shards.append(gc_shard("A", plan, rnd32, cycles, mutators=1, heap=rnd32.choice([16, 24, 32]), stress=rnd32.choice([0, 1 << 20]),
                                   scenario="cycles", extra=["--fill-pct", rnd32.choice([20, 30]), "--layout", "map32"]))
    # known finding: NonMoving objects in a mark-sweep non-moving space are never reclaimed under ConcurrentImmix
    shards.append(gc_shard("D", "ConcurrentImmix", rnd, 130, mutators=1, workers=2, heap=24, stress=0, scenario="cycles",
                           extra=["--fill-pct", 40], finding="config:marksweep_as_nonmoving+concurrentimmix:nonmoving-space-never-reclaimed"))
    return shards


gcsim("C09", "Garbage is fully reclaimable (no space leak across GC cycles)",
      rule="single-mutator gcsim programs of the shape the property describes, for every collecting plan in variants A-D (D = marksweep_as_nonmoving) and five plans of variant A under the discontiguous layout (Map32): 45 cycles (thorough 700) of {allocate 20-40 % of a 16-32 MiB heap as linked structures "
           "kept reachable from roots, with a different size mix per cycle (tiny objects, medium, the boundary-heavy general mix, half the bytes in large objects, line/block-sized, alternating tiny/large, one size class per cycle; "
           "Default, LOS and NonMoving semantics; PageProtect and LOS counted in pages), drop every root, force an exhaustive GC, read memory_manager::used_bytes}; E: an allocation fails or Collection::out_of_memory is called; "
           "used_bytes after the GC > heap/16 (heap/4 for ConcurrentImmix; the stated constant floor; the value observed on this tree is 0); half of the shards additionally run allocation-triggered (stress) GCs inside the fill phase; max used_bytes after GC over the second half of the run > max over the first half + 1 MiB (growth); every pause is also checked by the C01/C02 oracles; "
           "case = one cycle; distinct = (size-mix profile, used-after-GC class)",
      technique="conservation/boundedness monitor on used_bytes and the OOM callback over allocate-drop-collect cycles of live runs",
      level_text="A bounded restatement of 'any number of cycles': leaks that show within the cycles run. Each cycle's post-GC used_bytes is compared with a constant floor and with the earlier cycles.",
      note="Objects of never-collected spaces (Immortal; NonMoving under immortal_as_nonmoving) are not part of the garbage by definition and are not allocated here.",
      design_ref="2/C09", shards=c09_shards,
      floors={"quick": {"cycles": 700, "growth_checks": 15, "objects_allocated": 2000000}})


def c10_shards(tier, seed):
    rnd = _rng(seed, 10)
    shards = []
    rounds = 3 if tier == "quick" else 25
    table = [("A", COLLECTING), ("B", ["Compressor", "StickyImmix", "MarkSweep"]), ("C", ["SemiSpace", "MarkCompact"]), ("D", ["Immix", "MarkSweep"])]
    for variant, plans in table:
        for plan in plans:
            if tier == "quick" and variant in "BCD" and rnd.random() < 0.4:
                continue
            n = rounds if plan != "PageProtect" else max(1, rounds // 3)
            shards.append(gc_shard(variant, plan, rnd, n, mutators=rnd.choice([1, 1, 2]), heap=rnd.choice([12, 16, 24]), stress=0, scenario="oom"))
    # dynamic heaps: the maximum, not the current size, decides what "larger than the heap" means
    for plan in ["SemiSpace", "Immix", "MarkSweep", "GenImmix"]:
        shards.append(gc_shard("A", plan, rnd, max(1, rounds // 2), mutators=1, heap=24, stress=0, scenario="oom", extra=["--dyn-heap", "4,24"]))
    return shards


gcsim("C10", "Out-of-memory and allocation-option contract",
      rule="gcsim scenario oom for every collecting plan (variants A-D), heaps of 12-24 MiB, 1-2 mutators: rounds of {(A) allocate reachable objects with default options until a request fails, (B) against the full heap issue all 8 AllocationOptions "
           "combinations x {Default 64 B / 1 KiB / the non-LOS limit, LOS 128 KiB / 1 MiB, NonMoving 256 B} (objects initialised, half of the successful ones retained, so overcommit grows past the heap size) and x {heap+8 MiB, 4 x heap, 2^40, 2^46, usize::MAX/2} "
           "with LOS and Immortal semantics, (C) drop everything and collect}; the binding records per request: result, out_of_memory callbacks, block_for_gc calls, completed-GC counter at entry / at the callback / at return. "
           "E: callback with allow_oom_call=false; >1 callback per request; non-null after a callback; callback with no GC completed since entry (request smaller than the heap); larger-than-heap request succeeding or triggering a GC; "
           "block_for_gc with at_safepoint=false; null with at_safepoint && allow_oom_call but no callback; a request that never returns (watchdog + CPU: reported as stall). "
           "The same predicates are evaluated on every default-option allocation of every other gcsim check. case = one request; distinct = (options, semantics, outcome, size class)",
      technique="history monitor at the binding boundary: per-request call/return record joined with the out_of_memory / block_for_gc callbacks and the GC counter",
      level_text="Every request's observable history is judged by direct predicates; heaps genuinely fill, so the emergency-collection and OOM paths of every allocator run.",
      note="Requests within 1 MiB of the heap size are not judged for 'immediate' vs 'after a collection'. NoGC cannot collect and is excluded. Sizes above usize::MAX/2 are not used (size arithmetic of the caller's own alignment padding overflows).",
      design_ref="2/C10", shards=c10_shards,
      floors={"quick": {"requests_with_options": 3000, "oom_after_collection": 80, "oom_immediate_larger_than_heap": 800, "null_not_at_safepoint": 500, "null_oom_call_suppressed": 400,
                        "overcommit_success_beyond_heap_size": 100, "requests_that_blocked_for_gc": 150, "heap_fill_rounds": 20, "requests_between_current_and_maximum_heap": 10}})


unit("C17", "Concurrent forwarding copies an object once and all tracers agree",
     rule="2/3/4/8 real threads (thorough up to 16) released by per-object spin gates on the SAME object run exactly the CopySpace::trace_object / Immix opportunistic-copy sequence through the re-exported object_forwarding functions "
          "(attempt_to_forward, spin_and_get_forwarded_object, forward_object, clear_forwarding_bits, the real ImmixSpace::attempt_mark and is_object_pinned), 737k objects per quick run; six metadata layouts "
          "(forwarding bits inside the pointer word at shift 0 / 62 / negative offset - single store; separate header bits - two stores; side bits with 4 objects per metadata byte) x five plans (copyspace, immix-forward, already-marked, pinned, "
          "copy-reserve-exhausted = winner declines and clears the bits); failpoints widen the window between copy and publish, between the pointer and the bits store, and at the loser's entry; non-trivial = >= 2 contenders observed spinning; "
          "distinct = (layout, plan, #threads, #spinners, who saw FORWARDED); plus gcsim runs of the copying plans (SemiSpace, GenCopy, GenImmix, Immix, StickyImmix; variants A, B, C) with 8 GC workers and the "
          "forwarding failpoints armed inside the real trace_object: every ObjectModel::copy of every pause is logged and an object id copied twice in one collection is a violation (the heap oracle of C01 checks that all slots agree on the new reference)",
     technique="exactly-once / agreement checker over the recorded (thread, returned reference) multiset and the copy counter of real racing threads, with failpoint-widened windows",
     level_text="Per object: ObjectModel::copy called once (0 when the winner declines), exactly one tracer saw the untriggered state, all tracers return the winner's copy (or the unmoved object), no returned word is a stale/half-written pointer or carries state bits; "
                "final bits/pointer/mark checked. Interleavings = what 2-16 threads on 16 cores plus failpoints produce.",
     note="The trace_object sequences are replicated by the harness from policy/copyspace.rs and immixspace.rs (each needs a real space and GCWorker); the same property is also observed end-to-end by gcsim (copy count per object per GC in ObjectModel::copy).",
     design_ref="2/C17", parallel=2, crash_is_violation=True, crash_sig=lambda shard, res: "crash:%s:%s" % (shard["variant"], _plan_of(shard) if shard["pkg"] == "gcsim" else "units"),
     shards=lambda tier, seed: [dict(pkg="units", variant="A", args=["C17"])] + [
         gc_shard(v, plan, _rng(seed, 17 + i), 14000 if tier == "quick" else 40000, workers=8, mutators=_rng(seed, 170 + i).choice([1, 2, 4]), heap=32, stress=100000, flags=["failpoints"])
         for i, (v, plan) in enumerate([("A", "SemiSpace"), ("A", "GenCopy"), ("A", "GenImmix"), ("A", "Immix"), ("A", "StickyImmix"), ("B", "GenImmix"), ("C", "SemiSpace")] * (1 if tier == "quick" else 4))],
     floors={"quick": {"objects_traced": 360000, "objects_with_2plus_spinning_contenders": 60000, "objects_where_a_tracer_saw_FORWARDED": 20000, "declined_objects_won_again_after_clear": 100000,
                       "failpoint_forward_window_hits": 10000, "failpoint_forward_loser_hits": 8000, "selftest_mutants_caught": 10,
                       "gcsim_copies_checked_for_exactly_once": 100000, "gcsim_pauses_with_copies": 500}})


def c18_shards(tier, seed):
    return [dict(pkg="units", variant="A", args=["C18"]), dict(pkg="units", variant="A", args=["C18", "--case", "pin-neighbour"])]


unit("C18", "Concurrent mark/log/pin state changes succeed exactly once",
     rule="204 targets: MarkState::test_and_mark, ImmixSpace::attempt_mark, MarkCompactSpace::test_and_mark/test_and_clear_mark, LargeObjectSpace::test_and_mark (full and nursery, both mark states), ObjectBarrier::log_object through the public "
          "barrier entry points, pin_object/unpin_object, CompressorSpace::test_and_mark (fetch_update on the 1-bit-per-word mark bitmap: 2-8 racers walk 512 adjacent words in different orders, so every object and every neighbouring bit of its byte is contended), and a raw load+compare_exchange retry loop on run-time specs of every width; placements: side specs with the racing objects at all 8 (4) positions of a metadata byte and 10 header bindings "
          "with mark/pin/log at every bit of a shared header byte, LOS bits at every legal offset, negative offsets; (a) 2/3/4/8 racers on one object, (b) racers PLUS neighbour threads that each own another field of the same metadata byte and keep changing it; "
          "case pin-neighbour: only real transition functions as neighbours (pin/unpin of the adjacent object, mark and log of the same object); ~1M raced objects per quick run; distinct = (target, placement, #racers, neighbour kind, outcome)",
     technique="exactly-once checker on the return values of real racing threads + neighbour-ownership check (a field only its owner changes must never be seen changed by someone else)",
     level_text="Per raced object: exactly one thread observed the transition as its own, final state is the transitioned state, no neighbouring field was clobbered, no panic.",
     note="Interleavings = what up to 8 threads on 16 cores produce in ~1M races; not exhaustive.",
     design_ref="2/C18", shards=c18_shards, parallel=2,
     floors={"quick": {"objects_raced_a_racers_only": 250000, "objects_raced_b_with_neighbours": 230000, "neighbour_field_changes_during_races": 2000000, "transitions_won_by_another_racer": 200000,
                       "targets": 204, "selftest_mutants_caught": 7, "compressor_mark_objects_raced": 50000, "compressor_mark_attempts_lost": 50000}})

unit("C24", "Side-metadata tables in use by one configuration never alias",
     rule="11 plans x 5 compiled VM metadata declarations (all in header; all bits on side in two declaration orders; two mixed placements) = 55 real plan instances (one child process each): every space's SideMetadataContext is exported through a hook, "
          "every spec's [start, upper bound) computed with public SideMetadataSpec methods; plus a run-time enumeration of all 2^6 in-header/side choices x all declaration orders of the side ones built with the real side_first/side_after const fns "
          "(652 declarations, 130 accepted by mmtk's own size check) substituted into each plan's exported core sets (1430 configurations); oracle: within a space's context, over the union of all contexts of a plan, and among the VM's declared side specs, "
          "distinct specs have disjoint ranges; every spec lies inside [base, base + reserved bytes); address_to_meta_address of the first/last region stays inside the spec's own range; exhaustive within the built feature set",
     technique="runtime enumeration of real plan instances + interval-disjointness oracle over the exported contexts (finite space, enumerated completely for the compiled feature set)",
     level_text="Every (plan, VM declaration) configuration of the built feature set is instantiated for real and its active spec set checked; VM placements beyond the compiled ones are enumerated on the exported core sets.",
     note="Feature set of the units binary: vo_bit + object_pinning. A spec listed twice in one list (StickyImmix lists VO_BIT and CHUNK_MARK twice) is one table, not an alias: counted, not a violation. A side forwarding pointer is rejected by mmtk's own size check and is only counted.",
     design_ref="2/C24", exhaustive=True,
     floors={"quick": {"plans_created": 55, "spaces_exported": 200, "specs_in_use": 400, "pairs_checked": 4000, "enum_declarations": 652, "enum_declarations_legal": 130, "enum_configurations": 1400,
                       "enum_pairs_checked": 100000, "selftest_mutants_caught": 10}})


def c28_shards(tier, seed):
    rnd = _rng(seed, 28)
    shards = []
    reps = 1 if tier == "quick" else 5
    ops = 12000 if tier == "quick" else 40000
    for variant, plans in (("A", COLLECTING), ("B", ["Compressor", "StickyImmix", "Immix"]), ("C", ["SemiSpace", "MarkCompact"]), ("D", ["Immix", "MarkSweep"])):
        for plan in plans:
            for i in range(reps):
                shards.append(gc_shard(variant, plan, rnd, ops, flags=["events"] + (["weak", "finalizers"] if i % 2 else []), workers=rnd.choice([1, 4, 8]), mutators=rnd.choice([1, 2, 4]),
                                       heap=rnd.choice([32, 64]), stress=rnd.choice([100000, 200000])))
    # discontiguous spaces (Map32 + chunk-granular page resources)
    for plan in ["SemiSpace", "GenCopy", "GenImmix", "Immix", "StickyImmix", "MarkSweep", "MarkCompact", "ConcurrentImmix"]:
        for i in range(reps):
            shards.append(gc_shard("A", plan, rnd, ops, flags=["events"], workers=rnd.choice([2, 8]), mutators=rnd.choice([1, 4]), heap=rnd.choice([32, 64]),
                                   stress=rnd.choice([100000, 200000]), extra=["--layout", "map32"]))
    # failing allocations: every AllocationOptions combination against a full heap (the C10 scenario) under the page monitor;
    # a request that fails, with or without a collection, must leave no reservation behind
    for plan in ["SemiSpace", "Immix", "MarkSweep", "GenImmix"]:
        shards.append(gc_shard("A", plan, rnd, 3 if tier == "quick" else 12, flags=["events"], workers=2, mutators=1, heap=16, stress=0, scenario="oom"))
    return shards


gcsim("C28", "Page resources hand out disjoint in-space pages with exact accounting",
      rule=GC_RULE + "with the mmtk_verif event log: every successful Space::acquire emits a grant event (page resource, start, pages, VM-map descriptor of first and last byte) AFTER the pages were obtained, every FreeListPageResource::release_pages / "
           "BlockPageResource::release_block emits a release event and every MonotonePageResource::reset / reset_cursor a reset event BEFORE the pages are given back; at every pause end the binding emits the real reserved/committed counters of every space. "
           "The monitor keeps the set of live page runs per page resource: E: a grant not page aligned, outside a contiguous space's [start, start+extent), with a VM-map descriptor other than the space's, or overlapping a live run of ANY space; a release that is not "
           "exactly a live run; at a pause end reserved != committed or committed != sum of live runs (an underflowed counter shows as a huge difference). 1-4 mutators and 1-8 GC workers acquire concurrently; contiguous (Map64) and discontiguous (--layout map32) "
           "spaces; case = one grant, release or per-space snapshot; distinct = (space, run-size class) and (space, live-pages class)",
      technique="conservation monitor (in = out + held) over the grant/release event log of real page resources + quiescent-point comparison with the real counters",
      level_text="Every grant and release of every space in the runs is checked against the model of live runs, and the counters are compared with the model at every pause end.",
      note="reset_cursor of a discontiguous monotone space (MarkCompact/Compressor under map32) keeps regions by list order, which the model does not follow: that space is then only checked for overlap of new grants until its next full reset.",
      design_ref="2/C28", shards=c28_shards,
      floors={"quick": {"grants": 30000, "releases": 15000, "monotone_resets": 1000, "quiescent_snapshots": 15000, "snapshots_nonempty_space": 8000, "grants_of_previously_released_pages": 10000}})


def c31_shards(tier, seed):
    rnd = _rng(seed, 31)
    shards = std_gc_shards(tier, seed, 31, ["resolve"]) + std_gc_shards(tier, seed, 310, ["resolve", "weak", "finalizers"], single_mutator=True, variants="AB", plans_filter=["SemiSpace", "Immix", "MarkSweep", "GenCopy"])
    ops = 12000 if tier == "quick" else 40000
    for plan in ["SemiSpace", "GenCopy", "GenImmix", "Immix", "StickyImmix", "MarkSweep", "MarkCompact", "ConcurrentImmix", "PageProtect"]:
        for _ in range(1 if tier == "quick" else 4):
            shards.append(gc_shard("A", plan, rnd, ops, flags=["resolve"], mutators=rnd.choice([1, 1, 2]), heap=rnd.choice([64, 128]), extra=["--layout", "map32"]))
    return shards


gcsim("C31", "Address-to-space resolution is total and exact",
      rule=GC_RULE + "all plans in variants A-D on the default 64-bit layout (SFTSpaceMap, Map64) and variant A under a discontiguous 35-bit layout (--layout map32: SFTSparseChunkMap/Map32); at every pause end the SFT entry name, the VM map descriptor and "
           "memory_manager::is_in_mmtk_spaces are queried for: addresses at the start / middle / last word of a sample of live objects of every semantics (must resolve to a space of the plan that is not the empty space; LOS / Immortal / NonMoving objects to the "
           "spaces of those names, default objects to none of them; SFT space and VM-map descriptor must agree; inside the space's range), boundary addresses of every contiguous space (the space itself or empty, never another space), addresses outside the heap "
           "(low, stack, static, malloc, heap_start-8, heap_end, heap_end+8, 2^47+-8, 2^63, usize::MAX&~7, side-metadata range: empty and not in MMTk spaces), objects freed by the last exhaustive GC and random chunk boundaries in the heap range "
           "(mechanisms must agree: is_in_mmtk_spaces <=> SFT entry not empty; SFT space => same VM-map descriptor); a panic in any lookup is a violation; case = one address; distinct = set of spaces objects resolved to, empty seen",
      technique="differential monitor of the three resolution mechanisms against the shadow heap and the plan's space table at quiescent points",
      level_text="Resolution is checked for the addresses listed, in every pause of every run; not for all addresses.",
      note="SFTSpaceMap attributes the whole 2 TiB address slot of a contiguous space to it, so addresses of a slot outside [start, start+extent) are not expected to be 'empty'. Under Map64 the VM map is only queried for addresses the SFT attributes to a space "
           "(Map64::get_descriptor_for_address has the precondition 'inside the heap range' and indexes out of bounds for the unusable last slot below heap_end; not reachable through the public API); under Map32, whose lookup is total by construction "
           "(bounds-checked table, uninitialised descriptor), it is queried for every probed address: no panic, and the uninitialised descriptor outside [heap_start, heap_end). SFTDenseChunkMap (vm_space builds) is not covered.",
      design_ref="2/C31", shards=c31_shards,
      floors={"quick": {"addresses_inside_live_objects": 500000, "space_boundary_addresses": 20000, "outside_heap_addresses": 5000, "random_chunk_addresses": 50000, "freed_object_addresses": 500, "freed_multi_chunk_object_addresses": 300, "addresses_resolved_to_empty": 30000}})


def c34_shards(tier, seed):
    rnd = _rng(seed, 34)
    shards = [dict(pkg="units", variant="A", args=["C34"])]
    reps = 1 if tier == "quick" else 5
    ops = 16000 if tier == "quick" else 60000
    table = [("A", ["Immix", "StickyImmix", "GenImmix", "ConcurrentImmix", "SemiSpace", "MarkSweep"]), ("B", ["Immix", "StickyImmix", "GenImmix", "SemiSpace"])]
    for variant, plans in table:
        for plan in plans:
            for _ in range(reps):
                nursery = ["--opt", "nursery=Fixed:1048576"] if plan in ("StickyImmix", "GenImmix") and rnd.random() < 0.5 else []
                shards.append(gc_shard(variant, plan, rnd, ops, flags=["lines"], heap=rnd.choice([24, 32]), stress=rnd.choice([65536, 100000]), mutators=rnd.choice([1, 2, 4]), extra=nursery))
    return shards


gcsim("C34", "Immix never hands out a line that holds a live object",
      rule=GC_RULE + "(i) live: Immix, StickyImmix, GenImmix, ConcurrentImmix (default space) and SemiSpace/MarkSweep (non-moving Immix space) in variants A and B (8 KiB blocks, non-moving sticky nursery), a GC every 64-100 KiB so that every process runs "
           "several hundred collections and the 7-bit line mark state wraps; at every pause end, for every live object in an Immix space: every line it spans carries the current or the unavailable mark state, it does not cross its block, its block is not Unallocated; "
           "for every block holding a live object the real ImmixSpace::get_next_available_lines is iterated the way the allocator does and must return exactly the maximal runs of lines whose mark is neither state (own scan of the line mark table), none of which "
           "overlaps the lines of a live object; allocation into holes is additionally covered by the C02 overlap oracle in the same runs; (ii) unit: BlockState <-> byte round trip for all 256 bytes and all legal states on a real mapped block-state table, "
           "Line::mark/is_marked for all byte values; case = one live object or block; distinct = (space, current state, unavailable state)",
      technique="structural-invariant monitor at quiescent points (line mark table and real hole search vs the shadow heap's live objects) + reference-model unit for the block-state codec",
      level_text="Invariant checked at every pause of long runs that cross the line-state wrap several times.",
      note="Objects allocated since the last GC are not judged (their lines are only marked when traced).",
      design_ref="2/C34", shards=c34_shards,
      floors={"quick": {"live_immix_objects_checked": 300000, "lines_of_live_objects_checked": 800000, "blocks_hole_searched": 50000, "holes_returned": 80000, "line_state_wraps": 12, "pauses_nursery": 300, "pauses_full": 1500,
                        "block_states_round_tripped": 130, "bytes_decoded": 256, "selftest_mutants_caught": 4}})
