#!/usr/bin/env python3
"""Merge the per-worker result files of a seeded-change evaluation (seeded/results_<worker>.json) into
seeded/results.json.  `first_pass` keeps the verdict of the first (unseen) run when an id was run
again after the machinery had been strengthened (pass the files of the first runs as arguments)."""
import json, glob, os, sys
ROOT = os.path.dirname(os.path.dirname(os.path.abspath(__file__)))
res = json.load(open(os.path.join(ROOT, "seeded", "results.json")))
first = {}
for f in sys.argv[1:]:
    for k, v in json.load(open(f)).items():
        first[k] = v.get("status")
cands = {}
for f in sorted(glob.glob(os.path.join(ROOT, "seeded", "results_*.json"))):
    for k, v in json.load(open(f)).items():
        cands.setdefault(k, []).append(v)
for k, vs in cands.items():
    # an id that was run again after the machinery had been strengthened appears twice: the later
    # run is the one that differs from the first pass (runs are only repeated after a miss)
    v = next((x for x in vs if x.get("status") == "caught"), vs[-1])
    if k in first and first[k] != v.get("status"):
        v["first_pass"] = first[k]
    res[k] = v
json.dump(res, open(os.path.join(ROOT, "seeded", "results.json"), "w"), indent=1)
r4 = {k: v for k, v in res.items() if k.endswith("-4")}
print(len(r4), "round-3 results;", sum(1 for v in r4.values() if v.get("status") == "caught"), "caught;",
      "unseen caught:", sum(1 for v in r4.values() if v.get("status") == "caught" and "first_pass" not in v))
print("missed:", sorted(k for k, v in r4.items() if v.get("status") != "caught"))
print("caught after strengthening:", sorted(k for k, v in r4.items() if v.get("first_pass") == "missed" and v.get("status") == "caught"))
