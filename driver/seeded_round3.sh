#!/bin/bash
# Round-3 evaluation of seeded changes in an isolated copy: first confirm that each change still
# compiles and leaves the pinned test suite's result unchanged (504 passed, 1 failed), then run the
# target property's check against it (driver/seeded_worker.sh).
# usage: driver/seeded_round3.sh <workdir> <comma-separated ids>
W=$1; ONLY=$2
mkdir -p $W
if [ ! -d $W/repo ]; then git -C /repo worktree add --detach $W/repo >/dev/null 2>&1; cp -r --reflink=auto /repo/target $W/repo/target; fi
git -C $W/repo checkout -q --detach $(git -C /repo rev-parse HEAD); git -C $W/repo checkout -q -- .
for id in ${ONLY//,/ }; do
  out=/verif/seeded/$id/confirm.txt
  if git -C $W/repo apply /verif/seeded/$id/patch.diff; then
    (cd $W/repo && CARGO_NET_OFFLINE=true cargo nextest run --workspace --no-fail-fast --tool-config-file pb:/w/lib/nextest.toml --profile pb --test-threads 6 --offline 2>&1 | grep -E "Summary|^error(\[|:)" | head -5) > $out
    git -C $W/repo checkout -q -- .
  else
    echo "patch does not apply" > $out
  fi
  echo "$id: $(cat $out | tr '\n' ' ')"
done
if [ ! -d $W/verif/harness/target ]; then mkdir -p $W/verif/harness; cp -r --reflink=auto /verif/harness/target $W/verif/harness/target; rm -rf $W/verif/harness/target/miri; fi
exec /verif/driver/seeded_worker.sh $W "$ONLY" --seeds 1,2
