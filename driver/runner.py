"""Shard runner, merger, evidence writer, verdict logic."""
import json
import os
import signal
import subprocess
import sys
import time
import concurrent.futures as cf

ROOT = os.path.dirname(os.path.dirname(os.path.abspath(__file__)))
HARNESS = os.path.join(ROOT, "harness")
EVIDENCE = os.path.join(ROOT, "evidence")
REPLAYS = os.path.join(ROOT, "replays")
KNOWN = os.path.join(ROOT, "known_findings.json")

MASK = (1 << 64) - 1

VARIANTS = {
    # variant -> (cargo feature for gcsim/vmbind)
    "A": "var_a",
    "B": "var_b",
    "C": "var_c",
    "D": "var_d",
}


def splitmix(x):
    x = (x + 0x9E3779B97F4A7C15) & MASK
    z = x
    z = ((z ^ (z >> 30)) * 0xBF58476D1CE4E5B9) & MASK
    z = ((z ^ (z >> 27)) * 0x94D049BB133111EB) & MASK
    return z ^ (z >> 31)


def derive_seed(seed, index):
    return splitmix((seed * 0x100000001B3 + index * 0x9E3779B97F4A7C15 + 12345) & MASK) & ((1 << 62) - 1)


def env_offline():
    e = dict(os.environ)
    e["CARGO_NET_OFFLINE"] = "true"
    e.setdefault("RUST_BACKTRACE", "1")
    # keep harness output deterministic and quiet
    e.pop("RUST_LOG", None)
    return e


def bin_path(variant, pkg):
    return os.path.join(HARNESS, "target", variant, "release", pkg)


_built = set()


def build(variant, pkg, verbose=False):
    """(Re)build one harness binary against /repo's current working tree."""
    key = (variant, pkg)
    if key in _built:
        return True
    cmd = ["cargo", "build", "--release", "--offline", "-p", pkg,
           "--target-dir", os.path.join("target", variant)]
    if pkg == "gcsim":
        cmd += ["--features", VARIANTS[variant]]
    t0 = time.time()
    p = subprocess.run(cmd, cwd=HARNESS, env=env_offline(), stdout=subprocess.PIPE,
                       stderr=subprocess.STDOUT, text=True)
    if p.returncode != 0:
        sys.stderr.write("HARNESS-FAILURE: build %s/%s failed\n%s\n" % (variant, pkg, p.stdout[-6000:]))
        return False
    if verbose:
        sys.stderr.write("built %s/%s in %.0fs\n" % (variant, pkg, time.time() - t0))
    _built.add(key)
    return True


def build_all(verbose=False):
    ok = True
    for variant, pkg in [("A", "units"), ("A", "gcsim"), ("B", "gcsim"), ("C", "gcsim"), ("D", "gcsim")]:
        if not os.path.isdir(os.path.join(HARNESS, pkg)):
            continue
        ok = build(variant, pkg, verbose) and ok
    return 0 if ok else 2


def parse_reports(stdout):
    reps = []
    for line in stdout.splitlines():
        if line.startswith("VERIF-REPORT "):
            try:
                reps.append(json.loads(line[len("VERIF-REPORT "):]))
            except Exception as e:  # truncated line (process died while printing)
                pass
    return reps


def run_shard(shard):
    """Run one process.  Returns dict(status, reports, rc, tail, wall)."""
    env = env_offline()
    cwd = ROOT
    if shard.get("miri"):
        # the same monitor binary under the Miri interpreter (UB / data-race detection); the
        # monitor scales its budgets down with --tier miri
        # --release: Miri ignores the opt-level but takes debug-assertions / overflow-checks from the
        # profile, so the monitors see the same arithmetic as in the native runs
        cmd = ["cargo", "+nightly", "miri", "run", "--release", "--offline", "-p", shard["pkg"], "--target-dir",
               os.path.join("target", "miri"), "--"] + [str(a) for a in shard["args"]]
        flags = "-Zmiri-disable-isolation"
        if shard.get("miri_seeds"):
            flags += " -Zmiri-many-seeds=0..%d" % shard["miri_seeds"]
        env["MIRIFLAGS"] = flags
        cwd = HARNESS
    else:
        exe = bin_path(shard["variant"], shard["pkg"])
        cmd = [exe] + [str(a) for a in shard["args"]]
    t0 = time.time()
    try:
        p = subprocess.Popen(cmd, cwd=cwd, env=env, stdout=subprocess.PIPE,
                             stderr=subprocess.PIPE, text=True, errors="replace",
                             start_new_session=True)
    except OSError as e:
        return dict(status="harness", reports=[], rc=None, tail=str(e), wall=0.0, cmd=cmd)
    try:
        out, err = p.communicate(timeout=shard.get("timeout", 600))
        status = "ok" if p.returncode == 0 else ("watchdog" if p.returncode == 4 else "crash")
    except subprocess.TimeoutExpired:
        try:
            os.killpg(p.pid, signal.SIGKILL)
        except Exception:
            pass
        out, err = p.communicate()
        status = "timeout"
    reps = parse_reports(out)
    if shard.get("miri") and status == "crash":
        # Miri stops at the first undefined behaviour / data race with "error: Undefined Behavior: ..."
        ub = [l for l in (err or "").splitlines() if l.startswith("error: Undefined Behavior") or "Data race detected" in l]
        status = "miri-ub" if ub else "harness"
        if ub:
            err = "\n".join(ub[:3]) + "\n" + (err or "")[-3000:]
    return dict(status=status, reports=reps, rc=p.returncode, tail=(err or "")[-4000:],
                wall=time.time() - t0, cmd=cmd, out_tail=(out or "")[-2000:] if not reps else "")


def load_known():
    try:
        with open(KNOWN) as f:
            return json.load(f).get("findings", [])
    except FileNotFoundError:
        return []


def write_replay(pid, seed, idx, shard, violation, extra=None):
    os.makedirs(REPLAYS, exist_ok=True)
    path = os.path.join(REPLAYS, "%s-seed%d-%d.json" % (pid, seed, idx))
    with open(path, "w") as f:
        json.dump(dict(property=pid, variant=shard["variant"], pkg=shard["pkg"],
                       args=[str(a) for a in shard["args"]], violation=violation,
                       extra=extra or {}), f, indent=1)
    return path


def merge_reports(pid, results):
    merged = dict(evaluations=0, keys=set(), keys_overflow=0, counters={}, violations=[],
                  violation_count=0, samples=[], inconclusive=[], notes=[])
    maxc = set()
    for shard, res in results:
        for r in res["reports"]:
            if r.get("property") != pid:
                continue
            merged["evaluations"] += r.get("evaluations", 0)
            merged["keys"].update(r.get("keys", []))
            merged["keys_overflow"] += r.get("keys_overflow", 0)
            for k, v in r.get("counters", {}).items():
                if k.startswith("max_"):
                    merged["counters"][k] = max(merged["counters"].get(k, 0), v)
                else:
                    merged["counters"][k] = merged["counters"].get(k, 0) + v
            merged["violation_count"] += r.get("violation_count", 0)
            for v in r.get("violations", []):
                merged["violations"].append((shard, v))
            for s in r.get("samples", []):
                if len(merged["samples"]) < 8:
                    merged["samples"].append(s)
            if not shard.get("finding"):
                # (whatever goes wrong in a known-finding shard -- including a hang ended by the
                # watchdog -- is attributed to that finding, see run_check)
                for s in r.get("inconclusive", []):
                    merged["inconclusive"].append(s)
            for s in r.get("notes", []):
                if s not in merged["notes"] and len(merged["notes"]) < 30:
                    merged["notes"].append(s)
    return merged


def run_check(pid, tier, seed, only_shards=None):
    from registry import CHECKS
    spec = CHECKS[pid]
    t0 = time.time()
    shards = spec["shards"](tier, seed)
    for i, s in enumerate(shards):
        s.setdefault("pkg", "units")
        s.setdefault("variant", "A")
        s.setdefault("timeout", 900 if tier == "quick" else 7200)
        s["args"] = list(s["args"]) + ["--seed", str(derive_seed(seed, i)), "--tier", s.get("tier_arg", tier)]
    # build
    needed = sorted(set((s["variant"], s["pkg"]) for s in shards if not s.get("miri")))
    for variant, pkg in needed:
        if not build(variant, pkg):
            write_evidence(pid, spec, tier, seed, None, time.time() - t0, status="build-failure")
            return 2
    par = spec.get("parallel", 8)
    results = []
    with cf.ThreadPoolExecutor(max_workers=par) as ex:
        futs = {ex.submit(run_shard, s): s for s in shards}
        for f in cf.as_completed(futs):
            results.append((futs[f], f.result()))
    # retry timeouts / harness-level failures once with a doubled budget
    retried = []
    for shard, res in results:
        if res["status"] in ("timeout", "watchdog") or (res["status"] == "crash" and not spec.get("crash_is_violation") and not res["reports"]):
            s2 = dict(shard)
            s2["timeout"] = shard["timeout"] * 2
            res2 = run_shard(s2)
            res2["retried"] = True
            retried.append((shard, res2))
        else:
            retried.append((shard, res))
    results = retried

    # A process that died (signal / abort) although its reports carry no violation is run once more
    # with the same arguments and seed: a defect of the tree reproduces (the programs are
    # deterministic up to thread scheduling), while a one-off death of the process is recorded in
    # the evidence and the verdict is taken from the second run.
    unreproduced = []
    if spec.get("crash_is_violation"):
        again = []
        for shard, res in results:
            if res["status"] == "crash" and not shard.get("finding") and not any(r.get("violations") for r in res["reports"]):
                res2 = run_shard(shard)
                res2["retried"] = True
                if res2["status"] == "ok":
                    unreproduced.append("process died once (rc=%s) and ran to completion when repeated: %s | %s" % (
                        res["rc"], " ".join(str(a) for a in shard["args"]), res["tail"][-300:].replace("\n", " / ")))
                    again.append((shard, res2))
                    continue
                again.append((shard, res2 if res2["status"] == "crash" else res))
            else:
                again.append((shard, res))
        results = again

    merged = merge_reports(pid, results)
    merged["notes"].extend(unreproduced)
    harness_problems = list(merged["inconclusive"])
    violations = list(merged["violations"])  # (shard, {sig, detail})

    for shard, res in results:
        mine = [r for r in res["reports"] if r.get("property") == pid]
        if shard.get("finding"):
            # a shard that exercises a configuration recorded as a known finding: whatever goes
            # wrong in it is attributed to that finding (and nothing it reports counts otherwise)
            bad = res["status"] != "ok" or any(r.get("violations") for r in res["reports"])
            violations = [(s_, v_) for (s_, v_) in violations if s_ is not shard]
            if bad:
                detail = "status=%s rc=%s; %s" % (res["status"], res["rc"], "; ".join(
                    "%s:%s" % (r.get("property"), v.get("sig")) for r in res["reports"] for v in r.get("violations", [])[:3])[:600])
                violations.append((shard, dict(sig=shard["finding"], detail=detail + "\n" + res["tail"][-600:])))
            continue
        if res["status"] == "miri-ub":
            first = res["tail"].splitlines()[0] if res["tail"] else "undefined behaviour"
            violations.append((shard, dict(sig="miri:" + first[:120], detail=res["tail"][:3000])))
        elif res["status"] in ("timeout", "watchdog"):
            harness_problems.append("watchdog fired (inconclusive): %s" % " ".join(res["cmd"][1:]))
        elif res["status"] == "harness":
            harness_problems.append("could not start: %s" % res["tail"])
        elif res["status"] == "crash":
            if spec.get("crash_is_violation") and not any(r.get("violations") for r in mine):
                sig = spec.get("crash_sig", lambda shard, res: "crash")(shard, res)
                violations.append((shard, dict(sig=sig, detail="process exited rc=%s\n%s" % (res["rc"], res["tail"][-1500:]))))
            elif not mine:
                harness_problems.append("process failed rc=%s without report: %s\n%s" % (
                    res["rc"], " ".join(res["cmd"][1:]), res["tail"][-800:]))
        elif not mine:
            harness_problems.append("no report for %s from %s\n%s" % (pid, " ".join(res["cmd"][1:]), res.get("out_tail", "")))

    # known findings
    known = [k for k in load_known() if k.get("property") == pid and k.get("status") == "known"]
    new_violations = []
    known_hit = {}
    for shard, v in violations:
        k = next((k for k in known if k.get("sig") == v.get("sig")), None)
        if k is not None:
            known_hit.setdefault(k["sig"], k)
        else:
            new_violations.append((shard, v))

    # floors
    floors_missed = []
    for name, minimum in spec.get("floors", {}).get(tier, spec.get("floors", {}).get("quick", {})).items():
        have = merged["counters"].get(name, 0) if name != "evaluations" else merged["evaluations"]
        if have < minimum:
            floors_missed.append("%s=%d < floor %d" % (name, have, minimum))

    wall = time.time() - t0
    status = "held"
    if new_violations:
        status = "violated"
    elif harness_problems or floors_missed:
        status = "inconclusive"
    write_evidence(pid, spec, tier, seed, merged, wall, status=status,
                   n_new=len(new_violations), known_hit=list(known_hit),
                   harness_problems=harness_problems, floors_missed=floors_missed,
                   shards=[(s, r) for s, r in results])

    for sig, k in known_hit.items():
        print("KNOWN-FINDING: property=%s %s" % (pid, k.get("what", sig)))
    if new_violations:
        seen = set()
        idx = 0
        for shard, v in new_violations:
            if v.get("sig") in seen:
                continue
            seen.add(v.get("sig"))
            path = write_replay(pid, seed, idx, shard, v)
            idx += 1
            print("VIOLATION property=%s replay=%s" % (pid, path))
            sys.stderr.write("  sig=%s\n  %s\n" % (v.get("sig"), (v.get("detail") or "")[:2000]))
        sys.stdout.flush()
        return 1
    if harness_problems or floors_missed:
        for h in harness_problems[:10]:
            sys.stderr.write("INCONCLUSIVE: %s\n" % h[:1500])
        for fl in floors_missed:
            sys.stderr.write("OBSERVED-TOO-LITTLE: %s\n" % fl)
        return 2
    print("OK property=%s tier=%s seed=%d evaluations=%d distinct=%d wall=%.1fs" % (
        pid, tier, seed, merged["evaluations"], len(merged["keys"]) + merged["keys_overflow"] * 0, wall))
    return 0


def write_evidence(pid, spec, tier, seed, merged, wall, status, n_new=0, known_hit=(),
                   harness_problems=(), floors_missed=(), shards=()):
    os.makedirs(EVIDENCE, exist_ok=True)
    cov = dict(evaluations=0, distinct_nontrivial=0, rule=spec["rule"], samples=[])
    if merged is not None:
        cov["evaluations"] = merged["evaluations"]
        cov["distinct_nontrivial"] = len(merged["keys"])
        cov["distinct_keys_beyond_cap"] = merged["keys_overflow"]
        cov["samples"] = merged["samples"]
        cov["counters"] = merged["counters"]
        cov["notes"] = merged["notes"]
    if spec.get("exhaustive"):
        cov["exhaustive"] = True
    cov["verdict"] = status
    cov["known_findings_reproduced"] = list(known_hit)
    cov["inconclusive_reasons"] = [h[:400] for h in harness_problems][:10]
    cov["floors_missed"] = list(floors_missed)
    cov["processes"] = [
        dict(variant=s["variant"], pkg=s["pkg"], args=" ".join(str(a) for a in s["args"]),
             status=r["status"], wall_s=round(r["wall"], 2)) for s, r in shards][:64]
    cov["process_count"] = len(shards)
    ev = dict(property_id=pid, tier=tier, seed=seed, level=spec.get("level", "exploration"),
              coverage=cov, assumptions=spec.get("assumptions", []), wall_s=round(wall, 2),
              violations=n_new)
    tmp = os.path.join(EVIDENCE, ".%s.json.tmp" % pid)
    with open(tmp, "w") as f:
        json.dump(ev, f, indent=1)
    os.replace(tmp, os.path.join(EVIDENCE, "%s.json" % pid))


def replay(pid, path):
    with open(path) as f:
        rp = json.load(f)
    shard = dict(variant=rp["variant"], pkg=rp["pkg"], args=rp["args"], timeout=3600)
    if not build(shard["variant"], shard["pkg"]):
        return 2
    res = run_shard(shard)
    mine = [r for r in res["reports"] if r.get("property") == pid]
    vs = [v for r in mine for v in r.get("violations", [])]
    sys.stderr.write(res["tail"][-3000:] + "\n")
    if vs or (res["status"] == "crash" and not mine):
        for v in vs[:5]:
            print("REPLAY-VIOLATION sig=%s\n%s" % (v.get("sig"), v.get("detail", "")[:3000]))
        print("VIOLATION property=%s replay=%s" % (pid, path))
        return 1
    print("replay did not reproduce (status=%s)" % res["status"])
    return 0
