#!/usr/bin/env python3
"""Print the markdown table of seeded changes (DESIGN.md section 5.5) from seeded/*/meta.json and seeded/results.json."""
import json, os, glob
ROOT = os.path.dirname(os.path.dirname(os.path.abspath(__file__)))
res = json.load(open(os.path.join(ROOT, "seeded", "results.json")))
NOTES = json.load(open(os.path.join(ROOT, "seeded", "notes.json"))) if os.path.exists(os.path.join(ROOT, "seeded", "notes.json")) else {}
print("| id | where | change | verdict of the property's check | first signatures |")
print("|---|---|---|---|---|")
for d in sorted(glob.glob(os.path.join(ROOT, "seeded", "C*-*"))):
    name = os.path.basename(d)
    try:
        m = json.load(open(os.path.join(d, "meta.json")))
    except Exception:
        m = {}
    files = m.get("files") or []
    where = ", ".join(os.path.basename(f) for f in files)[:60]
    summ = (m.get("summary") or "").replace("|", "/").replace("\n", " ")
    if len(summ) > 170:
        summ = summ[:167] + "..."
    r = res.get(name, {})
    st = r.get("status", "not run")
    sigs = []
    for run in r.get("runs", []):
        if run.get("rc") == 1:
            sigs = run.get("sigs", [])[:2]
            break
    note = NOTES.get(name)
    verdict = {"caught": "**caught**", "missed": "missed"}.get(st, st)
    if r.get("first_pass") == "missed" and st == "caught":
        verdict = "missed unseen, **caught** after the machinery was strengthened"
    if note:
        verdict += " (" + note + ")"
    print("| %s | %s | %s | %s | %s |" % (name, where, summ, verdict, "; ".join("`%s`" % s[:70] for s in sigs)))
