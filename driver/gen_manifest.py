#!/usr/bin/env python3
"""Regenerate /verif/MANIFEST.json from driver/registry.py (so the two never disagree)."""
import json
import os
import subprocess
import sys

ROOT = os.path.dirname(os.path.dirname(os.path.abspath(__file__)))
sys.path.insert(0, os.path.join(ROOT, "driver"))
from registry import CHECKS, NOT_APPLICABLE  # noqa: E402

props = [json.loads(l) for l in open(os.path.join(ROOT, "properties.jsonl"))]
ids = [p["id"] for p in props]

try:
    commits = subprocess.run(["git", "-C", "/repo", "log", "--format=%H %s"], capture_output=True, text=True).stdout.splitlines()
    hook_commits = [c.split()[0] for c in commits if " verif hooks:" in c]
except Exception:
    hook_commits = []

checks = []
for pid in ids:
    if pid not in CHECKS:
        continue
    c = CHECKS[pid]
    checks.append(dict(
        property_id=pid,
        quick_cmd="./check %s --tier quick" % pid,
        thorough_cmd="./check %s --tier thorough" % pid,
        evidence_file="/verif/evidence/%s.json" % pid,
        replay_cmd_template="./check %s --replay {path}" % pid,
        engine=c.get("engine", "units"),
        level_claimed=dict(category=c.get("level", "exploration"), text=c["level_text"],
                           design_ref="DESIGN.md section " + c.get("design_ref", "2")),
        level_note=c["level_note"],
        technique=c["technique"],
    ))

na = []
for pid in ids:
    if pid in CHECKS:
        continue
    na.append(dict(property_id=pid, reason=NOT_APPLICABLE.get(pid, "check not built yet in this framework (runtime-monitoring procedure is described in DESIGN.md section 2 but not implemented); not claimed")))

manifest = dict(
    version=1,
    setup_cmd="./check --build",
    hooks=dict(
        guard="cargo feature mmtk_verif (mmtk-core Cargo.toml, off by default)",
        enable="harness crates depend on mmtk = { path = \"/repo\", features = [\"mmtk_verif\", ...] }; ./check rebuilds them with cargo build --release --offline",
        baseline_off_cmd="cd /repo && cargo test --workspace --no-fail-fast --offline",
        source_commits=hook_commits,
        add_only=True,
    ),
    engines=[
        dict(name="units", path="/verif/harness/units", kind_free_text="reference-model monitors: real component driven side by side with an executable model over generated histories; offline checkers over recorded histories",
             serves_properties=[p for p in ids if p in CHECKS and CHECKS[p].get("engine") == "units"]),
        dict(name="gcsim", path="/verif/harness/gcsim", kind_free_text="a real VM binding (VerifVM) with a shadow heap; generated multi-threaded mutator programs run real GCs in short processes; oracles at quiescent points and on the binding-boundary/event-log history",
             serves_properties=[p for p in ids if p in CHECKS and CHECKS[p].get("engine") == "gcsim"]),
        dict(name="miri", path="/verif/harness/units", kind_free_text="the same unit monitors under cargo +nightly miri run (--tier miri budgets): undefined-behaviour / data-race interpreter on the pure-Rust components; an extra shard of the thorough tier",
             serves_properties=[p for p in ids if p in CHECKS and CHECKS[p].get("miri")]),
    ],
    checks=checks,
    notes="All checks are runtime monitoring: verdicts are 'held on the executions produced' / 'violated with witness' / 'inconclusive' (exit 2). See DESIGN.md (section 5 = what was built and found). "
          "Known findings and fixed defects: /verif/known_findings.json (read-only at run time; exact signatures). Seeded breaking changes and their evaluation: /verif/seeded/ (driver/seeded.py). "
          "./check <ID> [--tier quick|thorough] [--seed N] honours VERIF_TIER / VERIF_SEED; driver/run_all.sh runs every check.",
    not_applicable=na,
)
with open(os.path.join(ROOT, "MANIFEST.json"), "w") as f:
    json.dump(manifest, f, indent=1)
print("MANIFEST.json: %d checks, %d not_applicable" % (len(checks), len(na)))
