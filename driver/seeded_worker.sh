#!/bin/bash
# Evaluate seeded changes in an isolated copy (own git worktree of /repo + own copy of /verif with its
# own cargo target dirs), so that several can be evaluated at once and /repo stays untouched.
# usage: driver/seeded_worker.sh <workdir> <comma-separated mutant ids> [extra seeded.py args]
set -e
W=$1; ONLY=$2; shift 2
mkdir -p $W
if [ ! -d $W/repo ]; then git -C /repo worktree add --detach $W/repo >/dev/null 2>&1; fi
git -C $W/repo checkout -q --detach $(git -C /repo rev-parse HEAD); git -C $W/repo checkout -q -- .
rsync -a --delete --exclude harness/target --exclude .git --exclude replays --exclude evidence --exclude seeded /verif/ $W/verif/
sed -i "s#path = \"/repo\"#path = \"$W/repo\"#" $W/verif/harness/*/Cargo.toml
mkdir -p $W/verif/evidence $W/verif/replays
cd $W/verif
VERIF_SEEDED_REPO=$W/repo VERIF_SEEDED_SRC=/verif/seeded VERIF_SEEDED_OUT=/verif/seeded/results_$(basename $W).json python3 driver/seeded.py --only "$ONLY" "$@"
