#!/bin/bash
# Run every check once (quick tier by default) and print one line per check.
# usage: driver/run_all.sh [tier] [seed]
cd "$(dirname "$0")/.."
tier=${1:-quick}; seed=${2:-1}
fail=0
for id in $(python3 -c "import json;print(' '.join(c['property_id'] for c in json.load(open('MANIFEST.json'))['checks']))"); do
  out=$(./check $id --tier $tier --seed $seed 2>&1); rc=$?
  echo "$id rc=$rc $(echo "$out" | grep -c '^KNOWN-FINDING') known | $(echo "$out" | grep -v '^KNOWN-FINDING' | grep -v '^  ' | tail -1 | cut -c1-160)"
  [ $rc -ne 0 ] && fail=1
done
exit $fail
