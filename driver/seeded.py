#!/usr/bin/env python3
"""Apply each seeded breaking change under /verif/seeded/<id>/ to /repo, run the target check
(and optionally others), undo the change.  Results go to /verif/seeded/results.json.

  driver/seeded.py [--only C17-1,C20-2] [--also C01,C02] [--tier quick] [--seeds 1,2]
"""
import json
import os
import subprocess
import sys
import time
import concurrent.futures as cf

ROOT = os.path.dirname(os.path.dirname(os.path.abspath(__file__)))
REPO = os.environ.get("VERIF_SEEDED_REPO", "/repo")  # a worker copy: see driver/seeded_worker.sh
OUT = os.environ.get("VERIF_SEEDED_OUT", os.path.join(ROOT, "seeded", "results.json"))
SRC = os.environ.get("VERIF_SEEDED_SRC", os.path.join(ROOT, "seeded"))
sys.path.insert(0, os.path.join(ROOT, "driver"))
import runner  # noqa: E402
from registry import CHECKS  # noqa: E402

SEEDED = SRC


def sh(cmd, **kw):
    return subprocess.run(cmd, stdout=subprocess.PIPE, stderr=subprocess.STDOUT, text=True, **kw)


def needed_builds(pids, tier):
    need = set()
    for pid in pids:
        for s in CHECKS[pid]["shards"](tier, 1):
            need.add((s.get("variant", "A"), s.get("pkg", "units")))
    return sorted(need)


def build_parallel(need):
    ok = True
    with cf.ThreadPoolExecutor(max_workers=len(need) or 1) as ex:
        for r in ex.map(lambda vp: runner.build(vp[0], vp[1]), need):
            ok = ok and r
    return ok


def run_check(pid, tier, seed):
    t0 = time.time()
    p = sh([os.path.join(ROOT, "check"), pid, "--tier", tier, "--seed", str(seed)], cwd=ROOT)
    sigs = sorted(set(l.strip()[4:] for l in p.stdout.splitlines() if l.startswith("  sig=")))
    return dict(check=pid, seed=seed, rc=p.returncode, sigs=sigs[:12], wall=round(time.time() - t0, 1),
                tail=[l for l in p.stdout.splitlines() if not l.startswith("   ")][-3:])


def main():
    args = sys.argv[1:]
    only = None
    also = []
    tier = "quick"
    seeds = [1]
    i = 0
    while i < len(args):
        if args[i] == "--only":
            only = set(args[i + 1].split(","))
        elif args[i] == "--also":
            also = args[i + 1].split(",")
        elif args[i] == "--tier":
            tier = args[i + 1]
        elif args[i] == "--seeds":
            seeds = [int(x) for x in args[i + 1].split(",")]
        i += 2
    assert sh(["git", "-C", REPO, "status", "--porcelain"]).stdout.strip() == "", "/repo must be clean"
    resfile = OUT
    results = json.load(open(resfile)) if os.path.exists(resfile) else {}
    names = sorted(d for d in os.listdir(SEEDED) if os.path.isfile(os.path.join(SEEDED, d, "patch.diff")))
    for name in names:
        if only and name not in only:
            continue
        pid = name.split("-")[0]
        patch = os.path.join(SEEDED, name, "patch.diff")
        a = sh(["git", "-C", REPO, "apply", patch])
        if a.returncode != 0:
            results[name] = dict(status="patch-does-not-apply", detail=a.stdout[-400:])
            continue
        try:
            runner._built.clear()
            targets = [pid] + [x for x in also if x != pid]
            if not build_parallel(needed_builds(targets, tier)):
                results[name] = dict(status="does-not-build-with-harness-features")
                continue
            runs = []
            caught = False
            for t in targets:
                for sd in seeds:
                    r = run_check(t, tier, sd)
                    runs.append(r)
                    if r["rc"] == 1 and t == pid:
                        caught = True
                    if caught and t == pid:
                        break
            results[name] = dict(status="caught" if caught else "missed", runs=runs)
            print(name, results[name]["status"], [(r["check"], r["rc"], r["sigs"][:2]) for r in runs], flush=True)
        finally:
            sh(["git", "-C", REPO, "checkout", "--", "."])
            json.dump(results, open(resfile, "w"), indent=1)
    runner._built.clear()
    return 0


if __name__ == "__main__":
    sys.exit(main())
